#!/usr/bin/env python3
"""Regenerates MANIFEST.json from checks_meta.json (kept by hand)."""
import json, os
V = os.path.dirname(os.path.abspath(__file__))
meta = json.load(open(os.path.join(V, "checks_meta.json")))
props = [json.loads(l) for l in open(os.path.join(V, "properties.jsonl"))]
checks, na = [], []
for p in props:
    pid = p["id"]
    m = meta.get(pid)
    if not m or not m.get("claimed"):
        na.append({"property_id": pid, "reason": (m or {}).get("reason", "check not built yet in this session; will be claimed once its generated-input check exists and is silent on the unchanged tree")})
        continue
    checks.append({
        "property_id": pid,
        "quick_cmd": "python3 verif.py check %s --tier quick" % pid,
        "thorough_cmd": "python3 verif.py check %s --tier thorough" % pid,
        "evidence_file": "evidence/%s.json" % pid,
        "replay_cmd_template": "python3 verif.py replay %s {path}" % pid,
        "engine": "verifchecks",
        "level_claimed": {"category": m.get("category", "exploration"), "text": m["level_text"], "design_ref": m.get("design_ref", "DESIGN.md §4 " + pid)},
        "level_note": m["level_note"],
        "technique": m["technique"],
    })
baseline = json.load(open("/root/.vp/BASELINE.json"))["cmd"] if os.path.exists("/root/.vp/BASELINE.json") else ""
man = {
    "version": 1,
    "setup_cmd": "python3 verif.py setup",
    "hooks": {
        "guard": "verif (Go build tag)",
        "enable": "go test -c -tags verif -modfile=/verif/build/go.mod -overlay=/verif/build/overlay.json ./internal/verifchecks (harness and export shims are injected from /verif by -overlay; nothing is committed to /repo)",
        "baseline_off_cmd": meta["_baseline_off_cmd"],
        "source_commits": [],
        "add_only": True,
    },
    "engines": [{"name": "verifchecks", "path": "verif.py", "serves_properties": [c["property_id"] for c in checks],
                 "kind_free_text": "python driver that rebuilds one Go test binary from /repo's working tree (overlay-injected harness), runs it as 16 shards per property with pgregory.net/rapid generators and bounded enumerators, merges evidence, confirms violations from replay files"}],
    "checks": checks,
    "not_applicable": na,
    "notes": meta.get("_notes", ""),
}
json.dump(man, open(os.path.join(V, "MANIFEST.json"), "w"), indent=1)
print("claimed:", [c["property_id"] for c in checks])
