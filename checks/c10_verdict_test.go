//go:build verif

package verifchecks

import (
	"fmt"
	"os"
	"strings"
	"testing"

	"github.com/danwakefield/fnmatch"
	kit "github.com/gittuf/gittuf/internal/verifkit"
	"github.com/gittuf/gittuf/pkg/githash"
	"github.com/gittuf/gittuf/pkg/rsl"
	"pgregory.net/rapid"
)

// c10VerdictCase: a push of 1-3 commits to main under a policy with file rules.
// Every commit is signed by its own key and changes the odd path and / or two
// plain paths, one sorting before every other name ("!low") and one owned by a
// second principal ("zzz-owned").
type c10VerdictCase struct {
	Path     string `json:"path"`      // the odd path
	Change   string `json:"change"`    // add | modify | delete (what the first commit touching it does)
	Pattern  string `json:"pattern"`   // file rule pattern (without the "file:" prefix) for key c10GoodKey
	CommitBy int    `json:"commit_by"` // legacy single-commit form (used when Commits is empty)
	// multi-commit form
	Commits    []c10VCommit `json:"commits,omitempty"`
	SecondRule bool         `json:"second_rule,omitempty"` // file:zzz-owned -> key 2
	Global     string       `json:"global,omitempty"`      // "" | "threshold-other-ref" | "force-other-ref": a global rule that does not concern main
}

type c10VCommit struct {
	By    int      `json:"by"`    // signing key (-1 unsigned)
	Paths []string `json:"paths"` // subset of "odd", "low", "owned"
}

const (
	c10GoodKey  = 1
	c10OwnerKey = 2
	c10LowPath  = "!low"
	c10Owned    = "zzz-owned"
)

func genC10Verdict(rt *rapid.T) c10VerdictCase {
	c := c10VerdictCase{}
	dir := rapid.SampledFrom([]string{"", "src", "docs"}).Draw(rt, "dir")
	name := genComponent(rt)
	c.Path = name
	if dir != "" {
		c.Path = dir + "/" + name
	}
	if c.Path == c10LowPath || c.Path == c10Owned {
		c.Path = "x" + c.Path
	}
	c.Change = rapid.SampledFrom([]string{"add", "modify", "delete"}).Draw(rt, "change")
	kinds := []string{"catch-all", "other"}
	if dir != "" {
		kinds = append(kinds, "prefix", "prefix")
	}
	if !strings.ContainsAny(c.Path, "*?[]\\") {
		kinds = append(kinds, "literal", "literal")
	}
	switch rapid.SampledFrom(kinds).Draw(rt, "patkind") {
	case "catch-all":
		c.Pattern = "*"
	case "prefix":
		c.Pattern = dir + "/*"
	case "literal":
		c.Pattern = c.Path
	default:
		c.Pattern = "elsewhere/*"
	}
	c.SecondRule = rapid.Bool().Draw(rt, "secondrule")
	c.Global = rapid.SampledFrom([]string{"", "", "threshold-other-ref", "force-other-ref"}).Draw(rt, "global")
	n := rapid.IntRange(1, 3).Draw(rt, "ncommits")
	for i := 0; i < n; i++ {
		vc := c10VCommit{By: rapid.SampledFrom([]int{c10GoodKey, c10GoodKey, c10OwnerKey, wgUnknownKey, -1}).Draw(rt, "by")}
		mask := rapid.IntRange(1, 7).Draw(rt, "paths")
		if i == 0 {
			mask |= 1 // the push always touches the odd path
		}
		for bit, nm := range []string{"odd", "low", "owned"} {
			if mask&(1<<bit) != 0 {
				vc.Paths = append(vc.Paths, nm)
			}
		}
		c.Commits = append(c.Commits, vc)
	}
	return c
}

func runC10Verdict(t *testing.T, s *kit.Session, c c10VerdictCase) *kit.Failure {
	rsl.VerifResetCache()
	if len(c.Commits) == 0 { // legacy replay files
		c.Commits = []c10VCommit{{By: c.CommitBy, Paths: []string{"odd"}}}
	}
	dir, err := os.MkdirTemp("", "c10v-")
	if err != nil {
		panic(err)
	}
	defer os.RemoveAll(dir)
	g := kit.NewGitStore(t, dir, true)
	root := keyPrin(wgRootKey)
	type frule struct {
		pattern string
		key     int
	}
	rules := []frule{{c.Pattern, c10GoodKey}}
	spec := &kit.PolicySpec{
		RootPrincipals: []kit.PrincipalSpec{root}, RootThreshold: 1, TargetsKeys: []kit.PrincipalSpec{root}, TargetsThreshold: 1, RootSigners: []int{wgRootKey},
		Targets: &kit.FileSpec{Signers: []int{wgRootKey}, Principals: []kit.PrincipalSpec{keyPrin(c10GoodKey), keyPrin(c10OwnerKey)},
			Rules: []kit.RuleSpec{{Name: "protect-files", Patterns: []string{"file:" + c.Pattern}, Principals: []int{0}, Threshold: 1}}},
	}
	if c.SecondRule {
		spec.Targets.Rules = append(spec.Targets.Rules, kit.RuleSpec{Name: "owned-file", Patterns: []string{"file:" + c10Owned}, Principals: []int{1}, Threshold: 1})
		rules = append(rules, frule{c10Owned, c10OwnerKey})
	}
	switch c.Global {
	case "threshold-other-ref":
		spec.Globals = []kit.GlobalSpec{{Name: "elsewhere", Kind: "threshold", Patterns: []string{"git:refs/heads/elsewhere"}, Threshold: 2}}
	case "force-other-ref":
		spec.Globals = []kit.GlobalSpec{{Name: "elsewhere", Kind: "block-force-pushes", Patterns: []string{"git:refs/heads/elsewhere"}}}
	}
	if err := kit.StageAndApply(g, spec); err != nil {
		return &kit.Failure{Cause: "harness", Msg: "policy: " + err.Error()}
	}
	blobCache := map[int]string{}
	// (the plain paths are first added by the push itself: the base commit, signed by
	// the good key, must be valid whatever the rules are)
	files := map[string]int{"README": 1}
	if c.Change != "add" {
		files[c.Path] = 1
	}
	harness := func(err error) *kit.Failure { return &kit.Failure{Cause: "harness", Msg: err.Error()} }
	baseTree, err := c10WriteTree(g, files, blobCache)
	if err != nil {
		return harness(err)
	}
	// the base commit is signed by the good key, the only one the rule for the odd path trusts
	parent, err := g.RawCommit(kit.HashOf(baseTree), nil, "base\n", kit.Key(c10GoodKey))
	if err != nil {
		return harness(err)
	}
	if err := g.SetReference("refs/heads/main", parent); err != nil {
		return harness(err)
	}
	if err := rsl.NewReferenceEntry("refs/heads/main", parent).Commit(g, false); err != nil {
		return harness(err)
	}
	// the expected verdict: every changed path of every new commit is unprotected
	// or its commit is signed by a principal of some rule matching the path
	wantOK, why := true, ""
	oddTouched := false
	anyProtected := false
	for ci, vc := range c.Commits {
		for _, nm := range vc.Paths {
			path := map[string]string{"odd": c.Path, "low": c10LowPath, "owned": c10Owned}[nm]
			if nm == "odd" && !oddTouched {
				oddTouched = true
				if c.Change == "delete" {
					delete(files, path)
				} else {
					files[path] = 10 + ci
				}
			} else {
				files[path] = 10 + ci // (re)written with new content
			}
			matched, authorised := false, false
			for _, r := range rules {
				if fnmatch.Match("file:"+r.pattern, "file:"+path, 0) {
					matched = true
					if vc.By == r.key {
						authorised = true
					}
				}
			}
			if matched {
				anyProtected = true
			}
			if matched && !authorised && wantOK {
				wantOK = false
				why = fmt.Sprintf("commit %d (signed by key %d) changes protected path %q", ci, vc.By, path)
			}
		}
		tree, err := c10WriteTree(g, files, blobCache)
		if err != nil {
			return harness(err)
		}
		var signer *kit.TestKey
		if vc.By >= 0 {
			signer = kit.Key(vc.By)
		}
		commit, err := g.RawCommit(kit.HashOf(tree), []githash.Hash{parent}, fmt.Sprintf("change %d\n", ci), signer)
		if err != nil {
			return harness(err)
		}
		parent = commit
	}
	if err := g.SetReference("refs/heads/main", parent); err != nil {
		return harness(err)
	}
	if err := rsl.NewReferenceEntry("refs/heads/main", parent).Commit(g, false); err != nil {
		return harness(err)
	}
	got := verifyFull(g, "refs/heads/main")
	if wantOK && got.Err != nil {
		return &kit.Failure{Cause: "false-reject", Msg: fmt.Sprintf("push %+v (rules %v, odd path %q %s) should verify but failed: %v", c.Commits, rules, c.Path, c.Change, got.Err)}
	}
	if !wantOK && got.Err == nil {
		return &kit.Failure{Cause: "protected-path-not-enforced", Msg: fmt.Sprintf("push %+v verified although %s and the rules are %v (global rule: %q)", c.Commits, why, rules, c.Global)}
	}
	classes := []string{"verdict_case", "change_" + c.Change, fmt.Sprintf("verdict_commits_%d", len(c.Commits))}
	if anyProtected {
		classes = append(classes, "protected")
	}
	if !wantOK {
		classes = append(classes, "verdict_must_fail")
	}
	if c.Global != "" {
		classes = append(classes, "verdict_with_unrelated_global_rule")
	}
	s.Observe(c, oddPath(c.Path), classes...)
	return nil
}
