//go:build verif

package verifchecks

import (
	"fmt"
	"os"
	"strings"
	"testing"

	"github.com/danwakefield/fnmatch"
	kit "github.com/gittuf/gittuf/internal/verifkit"
	"github.com/gittuf/gittuf/pkg/githash"
	"github.com/gittuf/gittuf/pkg/rsl"
	"pgregory.net/rapid"
)

// c10VerdictCase: a push whose tip commit changes Path under a policy with one file rule.
type c10VerdictCase struct {
	Path     string `json:"path"`      // the odd path the tip commit touches
	Change   string `json:"change"`    // add | modify | delete
	Pattern  string `json:"pattern"`   // file rule pattern without the "file:" prefix
	CommitBy int    `json:"commit_by"` // key signing the tip commit (-1 unsigned)
}

const c10GoodKey = 1

func genC10Verdict(rt *rapid.T) c10VerdictCase {
	c := c10VerdictCase{}
	dir := rapid.SampledFrom([]string{"", "src", "docs"}).Draw(rt, "dir")
	name := genComponent(rt)
	c.Path = name
	if dir != "" {
		c.Path = dir + "/" + name
	}
	c.Change = rapid.SampledFrom([]string{"add", "modify", "delete"}).Draw(rt, "change")
	kinds := []string{"catch-all", "other"}
	if dir != "" {
		kinds = append(kinds, "prefix", "prefix")
	}
	if !strings.ContainsAny(c.Path, "*?[]\\") {
		kinds = append(kinds, "literal", "literal")
	}
	switch rapid.SampledFrom(kinds).Draw(rt, "patkind") {
	case "catch-all":
		c.Pattern = "*"
	case "prefix":
		c.Pattern = dir + "/*"
	case "literal":
		c.Pattern = c.Path
	default:
		c.Pattern = "elsewhere/*"
	}
	c.CommitBy = rapid.SampledFrom([]int{c10GoodKey, c10GoodKey, wgUnknownKey, 2, -1}).Draw(rt, "commitby")
	return c
}

func runC10Verdict(t *testing.T, s *kit.Session, c c10VerdictCase) *kit.Failure {
	rsl.VerifResetCache()
	dir, err := os.MkdirTemp("", "c10v-")
	if err != nil {
		panic(err)
	}
	defer os.RemoveAll(dir)
	g := kit.NewGitStore(t, dir, true)
	root := keyPrin(wgRootKey)
	spec := &kit.PolicySpec{
		RootPrincipals: []kit.PrincipalSpec{root}, RootThreshold: 1, TargetsKeys: []kit.PrincipalSpec{root}, TargetsThreshold: 1, RootSigners: []int{wgRootKey},
		Targets: &kit.FileSpec{Signers: []int{wgRootKey}, Principals: []kit.PrincipalSpec{keyPrin(c10GoodKey)},
			Rules: []kit.RuleSpec{{Name: "protect-files", Patterns: []string{"file:" + c.Pattern}, Principals: []int{0}, Threshold: 1}}},
	}
	if err := kit.StageAndApply(g, spec); err != nil {
		return &kit.Failure{Cause: "harness", Msg: "policy: " + err.Error()}
	}
	blobCache := map[int]string{}
	base := map[string]int{"README": 1}
	if c.Change != "add" {
		base[c.Path] = 1
	}
	tip := copyFiles(base)
	switch c.Change {
	case "add", "modify":
		tip[c.Path] = 2
	case "delete":
		delete(tip, c.Path)
	}
	baseTree, err := c10WriteTree(g, base, blobCache)
	if err != nil {
		return &kit.Failure{Cause: "harness", Msg: err.Error()}
	}
	tipTree, err := c10WriteTree(g, tip, blobCache)
	if err != nil {
		return &kit.Failure{Cause: "harness", Msg: err.Error()}
	}
	// the base commit is made by the authorised key, so it is valid whatever the pattern
	baseCommit, err := g.RawCommit(kit.HashOf(baseTree), nil, "base\n", kit.Key(c10GoodKey))
	if err != nil {
		return &kit.Failure{Cause: "harness", Msg: err.Error()}
	}
	if err := g.SetReference("refs/heads/main", baseCommit); err != nil {
		return &kit.Failure{Cause: "harness", Msg: err.Error()}
	}
	if err := rsl.NewReferenceEntry("refs/heads/main", baseCommit).Commit(g, false); err != nil {
		return &kit.Failure{Cause: "harness", Msg: err.Error()}
	}
	var signer *kit.TestKey
	if c.CommitBy >= 0 {
		signer = kit.Key(c.CommitBy)
	}
	tipCommit, err := g.RawCommit(kit.HashOf(tipTree), []githash.Hash{baseCommit}, "change\n", signer)
	if err != nil {
		return &kit.Failure{Cause: "harness", Msg: err.Error()}
	}
	if err := g.SetReference("refs/heads/main", tipCommit); err != nil {
		return &kit.Failure{Cause: "harness", Msg: err.Error()}
	}
	if err := rsl.NewReferenceEntry("refs/heads/main", tipCommit).Commit(g, false); err != nil {
		return &kit.Failure{Cause: "harness", Msg: err.Error()}
	}
	protected := fnmatch.Match("file:"+c.Pattern, "file:"+c.Path, 0)
	got := verifyFull(g, "refs/heads/main")
	wantOK := !protected || c.CommitBy == c10GoodKey
	if wantOK && got.Err != nil {
		return &kit.Failure{Cause: "false-reject", Msg: fmt.Sprintf("%s of %q (pattern file:%s, protected=%v) by key %d should verify but failed: %v", c.Change, c.Path, c.Pattern, protected, c.CommitBy, got.Err)}
	}
	if !wantOK && got.Err == nil {
		return &kit.Failure{Cause: "protected-path-not-enforced", Msg: fmt.Sprintf("%s of protected path %q (pattern file:%s) by key %d verified although only key %d is authorised for it", c.Change, c.Path, c.Pattern, c.CommitBy, c10GoodKey)}
	}
	classes := []string{"verdict_case", "change_" + c.Change}
	if protected {
		classes = append(classes, "protected")
	}
	s.Observe(c, oddPath(c.Path), classes...)
	return nil
}
