//go:build verif

package verifchecks

import (
	"bytes"
	"fmt"
	"os"
	"sort"
	"strings"
	"testing"
	"unicode/utf8"

	"github.com/danwakefield/fnmatch"
	kit "github.com/gittuf/gittuf/internal/verifkit"
	"github.com/gittuf/gittuf/pkg/githash"
	"github.com/gittuf/gittuf/pkg/rsl"
	"pgregory.net/rapid"
)

// ---------------------------------------------------------------------------
// C10 - File rules see every changed path verbatim; odd path names are not exempt
// ---------------------------------------------------------------------------

// c10Commit is one commit: its tree as path -> content id, and its parents (indices of earlier commits).
type c10Commit struct {
	Files   map[string]int `json:"files"`
	Parents []int          `json:"parents"`
	Signer  int            `json:"signer"` // -1 unsigned
}

type c10Case struct {
	Commits []c10Commit `json:"commits"`
}

var c10Alphabet = []string{"a", "b", "c", "x", "1", " ", " ", "\t", "\"", "\\", "\x01", "\x07", "\x1b", "\x1f", "\x7f", "é", "世", "ü", "*", "?", "[", "]", "'", "-", "#", "!", "$", "&", "(", ")", ";", "~", "^", "{", "}", "=", ",", "+", "@", "%"}

// c10SpecialNames are legal Git path components that look like something else:
// relative-path syntax, option syntax, hidden files.
var c10SpecialNames = []string{"..x", "...", "..cache", ".hidden", ".x..", "-", "--", "-n", "~", "a..b"}

func genComponent(rt *rapid.T) string {
	if rapid.IntRange(0, 7).Draw(rt, "special") == 0 {
		return rapid.SampledFrom(c10SpecialNames).Draw(rt, "specialname")
	}
	n := rapid.IntRange(1, 5).Draw(rt, "complen")
	var b strings.Builder
	for i := 0; i < n; i++ {
		b.WriteString(rapid.SampledFrom(c10Alphabet).Draw(rt, "ch"))
	}
	c := b.String()
	if c == "." || c == ".." || strings.EqualFold(c, ".git") {
		c = "x" + c
	}
	return c
}

func genPath(rt *rapid.T, dirs []string) string {
	depth := rapid.IntRange(0, 2).Draw(rt, "depth")
	var parts []string
	for i := 0; i < depth; i++ {
		if len(dirs) > 0 && rapid.Bool().Draw(rt, "reusedir") {
			parts = append(parts, rapid.SampledFrom(dirs).Draw(rt, "dir"))
		} else {
			parts = append(parts, genComponent(rt))
		}
	}
	parts = append(parts, genComponent(rt))
	return strings.Join(parts, "/")
}

// consistent reports whether no path is both a file and a directory.
func consistentPaths(files map[string]int) bool {
	for p := range files {
		parts := strings.Split(p, "/")
		for i := 1; i < len(parts); i++ {
			if _, isFile := files[strings.Join(parts[:i], "/")]; isFile {
				return false
			}
		}
	}
	return true
}

func genFiles(rt *rapid.T, base map[string]int, label string) map[string]int {
	files := map[string]int{}
	for k, v := range base {
		files[k] = v
	}
	dirs := []string{"src", "docs", "src dir", "a b"}
	n := rapid.IntRange(1, 4).Draw(rt, label+"nchanges")
	for i := 0; i < n; i++ {
		switch rapid.IntRange(0, 3).Draw(rt, label+"change") {
		case 0, 1: // add / modify
			p := genPath(rt, dirs)
			if len(files) > 0 && rapid.IntRange(0, 2).Draw(rt, label+"modify") == 0 {
				p = rapid.SampledFrom(sortedKeys(files)).Draw(rt, label+"existing")
			}
			old := files[p]
			files[p] = old + 1 + rapid.IntRange(0, 2).Draw(rt, label+"content")
			if !consistentPaths(files) {
				if old == 0 {
					delete(files, p)
				} else {
					files[p] = old
				}
			}
		case 2: // delete
			if len(files) > 1 {
				delete(files, rapid.SampledFrom(sortedKeys(files)).Draw(rt, label+"del"))
			}
		case 3: // prefix sibling of an existing name
			if len(files) > 0 {
				p := rapid.SampledFrom(sortedKeys(files)).Draw(rt, label+"sib") + rapid.SampledFrom([]string{"x", " ", ".x", "\t"}).Draw(rt, label+"suffix")
				files[p] = 1
				if !consistentPaths(files) {
					delete(files, p)
				}
			}
		}
	}
	if len(files) == 0 {
		files["a"] = 1
	}
	return files
}

func genC10(rt *rapid.T) c10Case {
	c := c10Case{}
	n := rapid.IntRange(1, 4).Draw(rt, "ncommits")
	for i := 0; i < n; i++ {
		cm := c10Commit{Signer: -1}
		var base map[string]int
		if i > 0 {
			switch rapid.IntRange(0, 5).Draw(rt, "shape") {
			case 0: // new root
			case 1, 2, 3:
				cm.Parents = []int{i - 1}
			default:
				if i >= 2 {
					a, b := rapid.IntRange(0, i-1).Draw(rt, "pa"), rapid.IntRange(0, i-1).Draw(rt, "pb")
					if a != b {
						cm.Parents = []int{a, b}
					} else {
						cm.Parents = []int{a}
					}
				} else {
					cm.Parents = []int{i - 1}
				}
			}
			if len(cm.Parents) > 0 {
				base = c.Commits[cm.Parents[len(cm.Parents)-1]].Files
				if len(cm.Parents) == 2 {
					switch rapid.IntRange(0, 2).Draw(rt, "mergetree") {
					case 0: // identical to last parent
						cm.Files = copyFiles(base)
					case 1: // identical to first parent
						cm.Files = copyFiles(c.Commits[cm.Parents[0]].Files)
					}
				}
			}
		}
		if cm.Files == nil {
			cm.Files = genFiles(rt, base, fmt.Sprintf("c%d", i))
		}
		c.Commits = append(c.Commits, cm)
	}
	return c
}

func copyFiles(m map[string]int) map[string]int {
	out := map[string]int{}
	for k, v := range m {
		out[k] = v
	}
	return out
}

// ---- writing trees with the harness's own plumbing ---------------------------------

func c10WriteTree(g *kit.GitStore, files map[string]int, blobCache map[int]string) (string, error) {
	type node struct {
		files map[string]int
		dirs  map[string]map[string]int
	}
	top := node{files: map[string]int{}, dirs: map[string]map[string]int{}}
	for p, v := range files {
		first, rest, nested := strings.Cut(p, "/")
		if !nested {
			top.files[p] = v
			continue
		}
		if top.dirs[first] == nil {
			top.dirs[first] = map[string]int{}
		}
		top.dirs[first][rest] = v
	}
	var input bytes.Buffer
	for name, v := range top.files {
		id, ok := blobCache[v]
		if !ok {
			out, err := g.Git([]byte(fmt.Sprintf("content %d\n", v)), "hash-object", "-w", "--stdin")
			if err != nil {
				return "", err
			}
			id = strings.TrimSpace(string(out))
			blobCache[v] = id
		}
		fmt.Fprintf(&input, "100644 blob %s\t%s\x00", id, name)
	}
	for name, sub := range top.dirs {
		id, err := c10WriteTree(g, sub, blobCache)
		if err != nil {
			return "", err
		}
		fmt.Fprintf(&input, "040000 tree %s\t%s\x00", id, name)
	}
	out, err := g.Git(input.Bytes(), "mktree", "-z")
	if err != nil {
		return "", err
	}
	return strings.TrimSpace(string(out)), nil
}

// diffPaths: paths added, modified or deleted between two trees (as maps).
func diffPaths(a, b map[string]int) []string {
	set := map[string]bool{}
	for p, v := range a {
		if w, ok := b[p]; !ok || w != v {
			set[p] = true
		}
	}
	for p := range b {
		if _, ok := a[p]; !ok {
			set[p] = true
		}
	}
	return sortedKeys(set)
}

func sameSet(a, b []string) bool {
	a, b = append([]string{}, a...), append([]string{}, b...)
	sort.Strings(a)
	sort.Strings(b)
	return fmt.Sprint(a) == fmt.Sprintf("%v", b) && len(a) == len(b)
}

func oddPath(p string) bool {
	for _, r := range p {
		if r == ' ' || r == '\t' || r == '"' || r == '\\' || r < 0x20 || r == 0x7f || r > 0x7f {
			return true
		}
	}
	return false
}

func runC10(t *testing.T, s *kit.Session, c c10Case) *kit.Failure {
	rsl.VerifResetCache()
	dir, err := os.MkdirTemp("", "c10-")
	if err != nil {
		panic(err)
	}
	defer os.RemoveAll(dir)
	g := kit.NewGitStore(t, dir, true)
	blobCache := map[int]string{}
	commitIDs := make([]githash.Hash, len(c.Commits))
	treeIDs := make([]githash.Hash, len(c.Commits))
	odd := false
	for i, cm := range c.Commits {
		for p := range cm.Files {
			if !utf8.ValidString(p) {
				return &kit.Failure{Cause: "harness", Msg: "generator produced invalid UTF-8"}
			}
			odd = odd || oddPath(p)
		}
		tid, err := c10WriteTree(g, cm.Files, blobCache)
		if err != nil {
			return &kit.Failure{Cause: "harness", Msg: "mktree: " + err.Error()}
		}
		treeIDs[i] = kit.HashOf(tid)
		var parents []githash.Hash
		for _, p := range cm.Parents {
			parents = append(parents, commitIDs[p])
		}
		var signer *kit.TestKey
		if cm.Signer >= 0 {
			signer = kit.Key(cm.Signer)
		}
		id, err := g.RawCommit(treeIDs[i], parents, fmt.Sprintf("commit %d\n", i), signer)
		if err != nil {
			return &kit.Failure{Cause: "harness", Msg: "commit: " + err.Error()}
		}
		commitIDs[i] = id
	}
	fail := func(cause, f string, a ...any) *kit.Failure {
		return &kit.Failure{Cause: cause, Msg: fmt.Sprintf(f, a...)}
	}
	for i, cm := range c.Commits {
		// trees read back verbatim
		all, err := g.GetAllFilesInTree(treeIDs[i])
		if err != nil {
			return fail("tree-read-error", "GetAllFilesInTree(commit %d): %v", i, err)
		}
		if !sameSet(sortedKeys(all), sortedKeys(cm.Files)) {
			return fail("tree-paths-not-verbatim", "GetAllFilesInTree(commit %d) returned %q, the tree holds %q", i, sortedKeys(all), sortedKeys(cm.Files))
		}
		for p, v := range cm.Files {
			if all[p].String() != blobCache[v] {
				return fail("tree-blob-mismatch", "GetAllFilesInTree(commit %d)[%q] = %s, written %s", i, p, all[p], blobCache[v])
			}
		}
		entries, err := g.GetEntriesInTree(treeIDs[i])
		if err != nil {
			return fail("tree-read-error", "GetEntriesInTree(commit %d): %v", i, err)
		}
		wantTop := map[string]bool{}
		for p := range cm.Files {
			first, _, _ := strings.Cut(p, "/")
			wantTop[first] = true
		}
		gotTop := []string{}
		for _, e := range entries {
			gotTop = append(gotTop, e.Path)
		}
		if !sameSet(gotTop, sortedKeys(wantTop)) {
			return fail("tree-paths-not-verbatim", "GetEntriesInTree(commit %d) returned %q, the tree holds %q", i, gotTop, sortedKeys(wantTop))
		}
		// changed paths
		got, err := g.GetFilePathsChangedByCommit(commitIDs[i])
		if err != nil {
			return fail("changes-read-error", "GetFilePathsChangedByCommit(commit %d): %v", i, err)
		}
		var want []string
		unspecified := false
		switch len(cm.Parents) {
		case 0:
			want = sortedKeys(cm.Files)
		case 1:
			want = diffPaths(c.Commits[cm.Parents[0]].Files, cm.Files)
		default:
			last := c.Commits[cm.Parents[len(cm.Parents)-1]].Files
			if len(diffPaths(last, cm.Files)) == 0 {
				want = nil
			} else {
				set := map[string]bool{}
				sameAsOther := false
				for _, p := range cm.Parents {
					d := diffPaths(c.Commits[p].Files, cm.Files)
					if len(d) == 0 {
						sameAsOther = true
					}
					for _, x := range d {
						set[x] = true
					}
				}
				want = sortedKeys(set)
				unspecified = sameAsOther // identical to a parent other than the last: documentation and code differ
			}
		}
		if !unspecified && !sameSet(got, want) {
			return fail("changed-paths-not-verbatim", "GetFilePathsChangedByCommit(commit %d, %d parents) returned %q, the trees differ in %q", i, len(cm.Parents), got, want)
		}
	}
	classes := []string{fmt.Sprintf("commits_%d", len(c.Commits))}
	for _, cm := range c.Commits {
		if len(cm.Parents) == 2 {
			classes = append(classes, "has_merge")
			break
		}
	}
	if odd {
		classes = append(classes, "odd_path")
	}
	s.Observe(c, odd, uniqStrs(classes)...)
	return nil
}

var _ = fnmatch.Match

func TestC10(t *testing.T) {
	s := kit.Open(t, "C10")
	run := func(c c10Case) *kit.Failure { return runC10(t, s, c) }
	verdict := func(c c10VerdictCase) *kit.Failure { return runC10Verdict(t, s, c) }
	if rf := kit.Replay(t); rf != nil {
		switch rf.Kind {
		case "paths":
			kit.DoReplay(s, t, rf, run)
		case "verdict":
			kit.DoReplay(s, t, rf, verdict)
		}
		return
	}
	s.SetRule("rapid on real repositories: commit graphs of 1-4 commits (roots, linear, merges identical to a parent or different from all) over trees whose path components are drawn from an alphabet with space, tab, double quote, backslash, control bytes (0x01-0x1f except LF), DEL, multi-byte UTF-8, glob metacharacters and shell metacharacters, 1-3 levels deep, with names that are prefixes of one another; trees and commits are written with the harness's own mktree -z / hash-object plumbing. Oracle (1): GetAllFilesInTree / GetEntriesInTree return exactly the names and blobs written; GetFilePathsChangedByCommit equals the tree diff computed from the generator's own maps (root: all paths; one parent: added+modified+deleted; merge: per the documented rule). Oracle (2): a push whose commit changes a path protected by a file rule (literal odd name, prefix glob over a directory holding odd names, catch-all; protection decided with the same fnmatch on the true path) verifies iff the commit is signed by the authorised key. Verdict campaign: a push of 1-3 commits, each signed by its own key (authorised for the odd path / owner of a second rule / unknown / none) and changing any subset of {the odd path, a plain path sorting before everything, a plain path owned by a second principal}, under one or two file rules and optionally a global rule that does not concern the branch; expected: verifies iff every changed path of every new commit is unprotected or its commit is signed by a principal of a rule matching that path. Non-trivial: a path containing a blank, a character git would C-quote, or a non-ASCII character")
	kit.Campaign(s, t, "paths", "paths", s.Budget(192, 12_000), genC10, run)
	kit.Campaign(s, t, "verdict", "verdict", s.Budget(48, 1_600), genC10Verdict, verdict)
}
