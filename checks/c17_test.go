//go:build verif

package verifchecks

import (
	"encoding/pem"
	"fmt"
	"strings"
	"testing"

	"github.com/gittuf/gittuf/internal/policy"
	kit "github.com/gittuf/gittuf/internal/verifkit"
	"github.com/gittuf/gittuf/pkg/githash"
	"github.com/gittuf/gittuf/pkg/gitstore"
	"github.com/gittuf/gittuf/pkg/rsl"
	"pgregory.net/rapid"
)

// ---------------------------------------------------------------------------
// C17 - Concurrent writers cannot corrupt the log
// ---------------------------------------------------------------------------

type c17Op struct {
	Kind string `json:"kind"` // ref | refkey | ann | prop | stage
	Ref  string `json:"ref,omitempty"`
	Tree int    `json:"tree,omitempty"`
}

type c17Case struct {
	Prefix   int     `json:"prefix"` // entries recorded before the concurrent phase
	Ops      []c17Op `json:"ops"`
	Schedule []int   `json:"schedule"`
}

// payload: how an operation's entry is recognised in the final log.
func (o c17Op) payload(i int) (kind, ref string) {
	switch o.Kind {
	case "ref", "refkey":
		return "reference", fmt.Sprintf("refs/heads/writer-%d", i)
	case "prop":
		return "propagation", fmt.Sprintf("refs/heads/writer-%d", i)
	case "ann":
		return "annotation", ""
	case "stage":
		return "reference", policy.PolicyStagingRef
	}
	return "", ""
}

func c17Run(i int, o c17Op, pool *kit.CommitPool, first githash.Hash) func(st gitstore.Storer) error {
	return func(st gitstore.Storer) error {
		_, ref := o.payload(i)
		switch o.Kind {
		case "ref":
			return rsl.NewReferenceEntry(ref, pool.IDs[o.Tree%len(pool.IDs)]).Commit(st, false)
		case "refkey":
			return rsl.NewReferenceEntry(ref, pool.IDs[o.Tree%len(pool.IDs)]).CommitUsingSpecificKey(st, kit.Key(i).PEM)
		case "prop":
			return rsl.NewPropagationEntry(ref, pool.IDs[o.Tree%len(pool.IDs)], "https://up/A", pool.IDs[4]).Commit(st, false)
		case "ann":
			return rsl.NewAnnotationEntry([]githash.Hash{first}, false, fmt.Sprintf("writer %d", i)).Commit(st, false)
		case "stage":
			md, err := kit.BuildStateMetadata(c03Spec(i % 2))
			if err != nil {
				return err
			}
			return (&policy.State{Metadata: md}).Commit(st, "stage", true, false)
		}
		return fmt.Errorf("unknown op")
	}
}

// classify returns the cause of a corrupted outcome ("" if the outcome is fine).
type c17Outcome struct {
	Cause  string
	Detail string
}

func runC17(t *testing.T, s *kit.Session, c c17Case) *kit.Failure {
	rsl.VerifResetCache()
	st := kit.NewMemStore()
	pool, err := kit.BuildCommitPool(st)
	if err != nil {
		panic(err)
	}
	for i := 0; i < c.Prefix; i++ {
		if err := rsl.NewReferenceEntry("refs/heads/base", pool.IDs[i%4]).Commit(st, false); err != nil {
			panic(err)
		}
	}
	var first githash.Hash
	hasAnn := false
	for _, o := range c.Ops {
		if o.Kind == "ann" {
			hasAnn = true
		}
	}
	if c.Prefix > 0 {
		chain, _ := kit.WalkChain(st, kit.RSLRef)
		first = kit.HashOf(chain[0].ID)
	} else if hasAnn {
		return nil // nothing to annotate: case not applicable
	}
	before, _ := kit.WalkChain(st, kit.RSLRef)
	ops := make([]func(gitstore.Storer) error, len(c.Ops))
	for i, o := range c.Ops {
		ops[i] = c17Run(i, o, pool, first)
	}
	errs, trace := kit.RunScheduled(st, c.Schedule, ops)
	rsl.VerifResetCache()
	fail := func(cause, f string, a ...any) *kit.Failure {
		return &kit.Failure{Cause: cause, Msg: fmt.Sprintf("%s\n errors=%v\n interleaving=%s", fmt.Sprintf(f, a...), errs, strings.Join(trace, " "))}
	}
	chain, err := kit.WalkChain(st, kit.RSLRef)
	if err != nil {
		return fail("chain-unreadable", "%v", err)
	}
	// every successful operation has exactly one entry, every failed one none
	newEntries := chain[len(before):]
	if !kit.IsPrefix(kit.ChainIDs(before), kit.ChainIDs(chain)) {
		return fail("lost-prefix", "entries recorded before the concurrent phase are no longer in the log")
	}
	for i, o := range c.Ops {
		kind, ref := o.payload(i)
		n := 0
		for _, e := range newEntries {
			if e.Kind != kind {
				continue
			}
			if kind == "annotation" {
				// annotations are told apart by their message
				if decodeAnnMsg(e.Text) == fmt.Sprintf("writer %d", i) {
					n++
				}
			} else if e.Ref == ref {
				n++
			}
		}
		if errs[i] == nil && n != 1 {
			return fail("lost-or-duplicated-entry", "operation %d (%+v) reported success but has %d entries in the log", i, o, n)
		}
		if errs[i] != nil && n != 0 {
			return fail("failed-op-left-trace", "operation %d (%+v) failed (%v) but left %d entries in the log", i, o, errs[i], n)
		}
	}
	chainDefect := kit.CheckChain(chain)
	// readers must walk the log end to end
	readerErr := ""
	if _, _, err := rsl.GetFirstEntry(st); err != nil && len(chain) > 0 {
		readerErr = "GetFirstEntry: " + err.Error()
	}
	if len(chain) >= 2 {
		if _, _, err := rsl.GetReferenceUpdaterEntriesInRange(st, kit.HashOf(chain[0].ID), kit.HashOf(chain[len(chain)-1].ID)); err != nil {
			readerErr = "GetReferenceUpdaterEntriesInRange: " + err.Error()
		}
	}
	if chainDefect != "" || readerErr != "" {
		// classification: the listed finding is "two successful writers, same number"
		dupOnly := strings.Contains(chainDefect, "but its parent is numbered") && c17StaleNumbersOnly(chain)
		if dupOnly && s.IsKnown("C17-duplicate-number-after-double-read") {
			s.KnownHit("C17-duplicate-number-after-double-read", c)
			return nil
		}
		if chainDefect != "" {
			return fail("chain-invalid", "%s", chainDefect)
		}
		return fail("readers-cannot-walk", "%s", readerErr)
	}
	// preemptions between an operation's first read of the tip and its commit
	preempt := 0
	for i := 1; i < len(trace); i++ {
		if trace[i][0] != trace[i-1][0] {
			preempt++
		}
	}
	classes := []string{fmt.Sprintf("writers_%d", len(c.Ops))}
	if preempt > len(c.Ops)-1 {
		classes = append(classes, "interleaved")
	}
	for _, e := range errs {
		if e != nil {
			classes = append(classes, "some_writer_failed")
			break
		}
	}
	s.Observe(c, preempt >= len(c.Ops), classes...)
	return nil
}

// c17StaleNumbersOnly classifies the listed finding: the chain is a
// single-parent chain of well-formed entries whose only defect is that some
// entries carry the number a writer computed from an older tip than the one
// its commit was parented on (number = 1 + the number of some earlier entry
// of the chain, instead of 1 + its parent's).
func c17StaleNumbersOnly(chain []*kit.RawEntry) bool {
	seen := map[uint64]bool{0: true} // a writer that saw an empty log numbers its entry 1
	for i, e := range chain {
		if strings.HasPrefix(e.Kind, "invalid:") {
			return false
		}
		if i == 0 {
			if len(e.Parents) != 0 {
				return false
			}
		} else {
			if len(e.Parents) != 1 {
				return false
			}
			if e.Number < 1 || !seen[e.Number-1] {
				return false
			}
		}
		seen[e.Number] = true
	}
	return true
}

func decodeAnnMsg(text string) string {
	blk, _ := pem.Decode([]byte(text))
	if blk == nil {
		return ""
	}
	return string(blk.Bytes)
}

func genC17(rt *rapid.T) c17Case {
	c := c17Case{Prefix: rapid.IntRange(0, 3).Draw(rt, "prefix")}
	n := rapid.IntRange(2, 3).Draw(rt, "nwriters")
	for i := 0; i < n; i++ {
		kinds := []string{"ref", "ref", "refkey", "prop", "stage"}
		if c.Prefix > 0 {
			kinds = append(kinds, "ann", "ann")
		}
		c.Ops = append(c.Ops, c17Op{Kind: rapid.SampledFrom(kinds).Draw(rt, "kind"), Tree: rapid.IntRange(0, 3).Draw(rt, "tree")})
	}
	// at most one policy commit (two would race on the staging ref, which is C16/C12 territory)
	stages := 0
	for i := range c.Ops {
		if c.Ops[i].Kind == "stage" {
			stages++
			if stages > 1 {
				c.Ops[i].Kind = "ref"
			}
		}
	}
	l := rapid.IntRange(0, 40).Draw(rt, "schedlen")
	for i := 0; i < l; i++ {
		c.Schedule = append(c.Schedule, rapid.IntRange(0, n-1).Draw(rt, "turn"))
	}
	return c
}

// systematic schedules: operation A runs a calls, then B runs b calls, then A
// to completion (<= 2 preemptions for two writers).
func c17Systematic(i int) (c17Case, bool) {
	kinds := [][2]string{{"ref", "ref"}, {"ref", "ann"}, {"ann", "ann"}, {"ref", "prop"}, {"refkey", "stage"}, {"prop", "ann"}}
	const maxA, maxB = 14, 14
	per := maxA * maxB
	if i >= len(kinds)*per {
		return c17Case{}, false
	}
	pair := kinds[i/per]
	a, b := (i%per)/maxB, (i%per)%maxB
	c := c17Case{Prefix: 2, Ops: []c17Op{{Kind: pair[0], Tree: 1}, {Kind: pair[1], Tree: 2}}}
	for k := 0; k < a; k++ {
		c.Schedule = append(c.Schedule, 0)
	}
	for k := 0; k < b; k++ {
		c.Schedule = append(c.Schedule, 1)
	}
	for k := 0; k < 40; k++ {
		c.Schedule = append(c.Schedule, 0)
	}
	return c, true
}

func TestC17(t *testing.T) {
	s := kit.Open(t, "C17")
	run := func(c c17Case) *kit.Failure { return runC17(t, s, c) }
	// process mode: the OS owns the schedule, so a replay repeats the case
	runProc := func(c c17ProcCase) *kit.Failure {
		for r := 0; r < max(1, c.Rounds); r++ {
			if f := runC17ProcOnce(t, s, c); f != nil {
				return f
			}
		}
		return nil
	}
	if rf := kit.Replay(t); rf != nil {
		if rf.Kind == "processes" {
			kit.DoReplay(s, t, rf, func(c c17ProcCase) *kit.Failure {
				for i := 0; i < 6; i++ {
					if f := runProc(c); f != nil {
						return f
					}
				}
				return nil
			})
			return
		}
		kit.DoReplay(s, t, rf, run)
		return
	}
	s.SetRule("2-3 recording operations {reference entry, entry signed with a specific key, annotation, propagation entry, policy staging commit} on one store under a scheduling Storer wrapper that grants one storage call at a time: (i) systematic - for 6 operation pairs every schedule 'A runs a calls, B runs b calls, A finishes, B finishes' with a,b in 0..13 (all placements of <=2 preemptions); (ii) rapid-generated random schedules for 2-3 writers; (iii) process mode: 2-4 (quick) / 2-8 (thorough) real OS processes (the check binary re-executed as workers) each recording 3-6 / 3-20 reference / annotation / propagation entries on one on-disk git repository, every worker reporting which operations returned nil. Oracle: independent walker (single parent, consecutive numbers), every operation that returned nil has exactly one entry and every failed one none, GetFirstEntry and a whole-log range query succeed. Non-trivial: at least as many context switches as writers")
	kit.Enumerate(s, t, "systematic", "schedule", c17Systematic, run)
	kit.Campaign(s, t, "random", "schedule", s.Budget(80_000, 2_000_000), genC17, run)
	// (iii) real processes on one on-disk repository (quick: 4 shards x 1 case; thorough: every shard x 6)
	s.ShrinkTime = 1 // a process-mode failure is not a function of the drawn case alone: do not spend time shrinking
	nproc, maxW, maxOps := 0, 4, 6
	if s.Thorough() {
		nproc, maxW, maxOps = 6, 8, 20
	} else if s.Shard < 4 {
		nproc = 1
	}
	// every other shard's cases start from an empty log (creation race)
	kit.Campaign(s, t, "processes", "processes", nproc, genC17Proc(maxW, maxOps, s.Shard%2 == 0), runProc)
}
