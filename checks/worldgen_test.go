//go:build verif

package verifchecks

import (
	"encoding/json"
	"errors"
	"fmt"
	"os"
	"testing"

	"github.com/gittuf/gittuf/internal/policy"
	kit "github.com/gittuf/gittuf/internal/verifkit"
	"github.com/gittuf/gittuf/pkg/rsl"
	"pgregory.net/rapid"
)

// Shared generator of worlds (policies + histories) for C01, C07, C08, C11.

const (
	wgRootKey    = 15
	wgUnknownKey = 9
	wgAppKey     = 14
)

var wgRefs = []string{"refs/heads/main", "refs/heads/release", "refs/heads/scratch"}

func keyPrin(k int) kit.PrincipalSpec { return kit.PrincipalSpec{Keys: []int{k}} }

// wgOptions steer the generator.
type wgOptions struct {
	delegShape    int  // fixed per world: 0 none, 1 one level, 2 two levels (rule files may not disappear between policy states)
	Globals       bool // add global rules
	PropProtected bool // allow propagation entries on protected refs
	Delegation    bool // allow delegated rule files
	MaxEvents     int
	Apps          bool
	TwoKeyPersons bool // some developers are persons holding two keys (d and 20+d)
}

// genPolicy draws one policy state over developer keys 0..5.
func genPolicy(rt *rapid.T, opt wgOptions, label string) kit.PolicySpec {
	root := keyPrin(wgRootKey)
	spec := kit.PolicySpec{
		RootPrincipals: []kit.PrincipalSpec{root}, RootThreshold: 1,
		TargetsKeys: []kit.PrincipalSpec{root}, TargetsThreshold: 1,
		RootSigners: []int{wgRootKey},
	}
	devs := rapid.SliceOfNDistinct(rapid.IntRange(0, 5), 2, 5, func(i int) int { return i }).Draw(rt, label+"devs")
	f := &kit.FileSpec{Signers: []int{wgRootKey}}
	for _, d := range devs {
		if opt.TwoKeyPersons && rapid.IntRange(0, 3).Draw(rt, label+"twokey") == 0 {
			f.Principals = append(f.Principals, kit.PrincipalSpec{Person: fmt.Sprintf("dev%d", d), Keys: []int{d, 20 + d}})
		} else if opt.Apps && rapid.IntRange(0, 2).Draw(rt, label+"person") == 0 {
			f.Principals = append(f.Principals, kit.PrincipalSpec{Person: fmt.Sprintf("dev%d", d), Keys: []int{d}, Identities: map[string]string{"github-app": fmt.Sprintf("gh-dev%d", d)}})
		} else {
			f.Principals = append(f.Principals, keyPrin(d))
		}
	}
	pickPrins := func(lbl string) ([]int, int) {
		n := rapid.IntRange(1, len(f.Principals)).Draw(rt, lbl+"n")
		idx := rapid.Permutation(indices(len(f.Principals))).Draw(rt, lbl+"perm")[:n]
		thr := rapid.IntRange(1, min(3, n)).Draw(rt, lbl+"thr")
		return append([]int{}, idx...), thr
	}
	ps, thr := pickPrins(label + "main")
	f.Rules = append(f.Rules, kit.RuleSpec{Name: "protect-main", Patterns: []string{"git:refs/heads/main"}, Principals: ps, Threshold: thr})
	if rapid.Bool().Draw(rt, label+"hasrelease") {
		ps, thr := pickPrins(label + "rel")
		pat := rapid.SampledFrom([]string{"git:refs/heads/release", "git:refs/heads/rel*"}).Draw(rt, label+"relpat")
		f.Rules = append(f.Rules, kit.RuleSpec{Name: "protect-release", Patterns: []string{pat}, Principals: ps, Threshold: thr, Terminating: rapid.Bool().Draw(rt, label+"relterm")})
	}
	spec.Targets = f
	if opt.Delegation && opt.delegShape > 0 {
		// delegate protect-main to a rule file signed by that rule's principals
		mainRule := f.Rules[0]
		df := kit.FileSpec{}
		for _, pi := range mainRule.Principals[:mainRule.Threshold] {
			df.Signers = append(df.Signers, f.Principals[pi].Keys[0])
		}
		extra := rapid.SliceOfNDistinct(rapid.IntRange(0, 7), 1, 3, func(i int) int { return i }).Draw(rt, label+"dprins")
		for _, d := range extra {
			df.Principals = append(df.Principals, keyPrin(d))
		}
		dthr := rapid.IntRange(1, min(2, len(df.Principals))).Draw(rt, label+"dthr")
		df.Rules = []kit.RuleSpec{{Name: "main-team", Patterns: []string{"git:refs/heads/main"}, Principals: indices(len(df.Principals)), Threshold: dthr}}
		if opt.delegShape == 2 {
			// second level, delegated from main-team
			d2 := kit.FileSpec{}
			for _, pi := range indices(len(df.Principals))[:dthr] {
				d2.Signers = append(d2.Signers, df.Principals[pi].Keys[0])
			}
			d2.Principals = []kit.PrincipalSpec{keyPrin(rapid.IntRange(0, 8).Draw(rt, label+"d2prin"))}
			d2.Rules = []kit.RuleSpec{{Name: "main-subteam", Patterns: []string{"git:refs/heads/main"}, Principals: []int{0}, Threshold: 1}}
			spec.Delegated = map[string]kit.FileSpec{"protect-main": df, "main-team": d2}
		} else {
			spec.Delegated = map[string]kit.FileSpec{"protect-main": df}
		}
	}
	if opt.Apps && rapid.Bool().Draw(rt, label+"app") {
		spec.Apps = []kit.AppSpec{{Name: "github-app", Key: wgAppKey, Trusted: rapid.IntRange(0, 3).Draw(rt, label+"apptrusted") != 0}}
	}
	if opt.Globals {
		ng := rapid.IntRange(0, 3).Draw(rt, label+"nglobals")
		for gi := 0; gi < ng; gi++ {
			pat := rapid.SampledFrom([]string{"git:refs/heads/main", "git:refs/heads/scratch", "git:refs/heads/*", "git:refs/tags/*", "git:refs/heads/unrelated"}).Draw(rt, label+"gpat")
			if rapid.Bool().Draw(rt, label+"gkind") {
				spec.Globals = append(spec.Globals, kit.GlobalSpec{Name: fmt.Sprintf("g%d", gi), Kind: "threshold", Patterns: []string{pat}, Threshold: rapid.IntRange(1, 3).Draw(rt, label+"gthr")})
			} else {
				spec.Globals = append(spec.Globals, kit.GlobalSpec{Name: fmt.Sprintf("g%d", gi), Kind: "block-force-pushes", Patterns: []string{pat}})
			}
		}
	}
	return spec
}

// derivePolicy copies prev and applies one small edit.
func derivePolicy(rt *rapid.T, prev kit.PolicySpec, label string, classes map[string]bool) kit.PolicySpec {
	var spec kit.PolicySpec
	b, _ := json.Marshal(prev)
	if err := json.Unmarshal(b, &spec); err != nil {
		panic(err)
	}
	f := spec.Targets
	resign := func() {
		// delegated files are signed by the threshold of the delegating rule's principals
		main := f.Rules[0]
		if df, ok := spec.Delegated["protect-main"]; ok {
			df.Signers = nil
			for _, pi := range main.Principals[:main.Threshold] {
				df.Signers = append(df.Signers, f.Principals[pi].Keys[0])
			}
			spec.Delegated["protect-main"] = df
			if d2, ok := spec.Delegated["main-team"]; ok {
				r := df.Rules[0]
				d2.Signers = nil
				for _, pi := range r.Principals[:r.Threshold] {
					d2.Signers = append(d2.Signers, df.Principals[pi].Keys[0])
				}
				spec.Delegated["main-team"] = d2
			}
		}
	}
	kinds := []string{"main-drop", "main-add", "main-threshold"}
	if _, ok := spec.Delegated["protect-main"]; ok {
		kinds = append(kinds, "delegated-only", "delegated-only", "delegated-only")
	}
	kind := rapid.SampledFrom(kinds).Draw(rt, label+"edit")
	switch kind {
	case "main-drop":
		r := &f.Rules[0]
		if len(r.Principals) > 1 {
			i := rapid.IntRange(0, len(r.Principals)-1).Draw(rt, label+"drop")
			r.Principals = append(append([]int{}, r.Principals[:i]...), r.Principals[i+1:]...)
			if r.Threshold > len(r.Principals) {
				r.Threshold = len(r.Principals)
			}
		}
	case "main-add":
		r := &f.Rules[0]
		in := map[int]bool{}
		for _, pi := range r.Principals {
			in[pi] = true
		}
		for pi := range f.Principals {
			if !in[pi] {
				r.Principals = append(r.Principals, pi)
				break
			}
		}
	case "main-threshold":
		r := &f.Rules[0]
		r.Threshold = rapid.IntRange(1, min(3, len(r.Principals))).Draw(rt, label+"newthr")
	case "delegated-only":
		// root and primary rule file stay byte-identical
		df := spec.Delegated["protect-main"]
		r := &df.Rules[0]
		if len(df.Principals) > 1 && rapid.Bool().Draw(rt, label+"ddrop") {
			// the delegatee drops its last principal
			df.Principals = df.Principals[:len(df.Principals)-1]
		} else {
			// ... or replaces one by another developer
			have := map[int]bool{}
			for _, p := range df.Principals {
				have[p.Keys[0]] = true
			}
			var free []int
			for k := 0; k <= 7; k++ {
				if !have[k] {
					free = append(free, k)
				}
			}
			i := rapid.IntRange(0, len(df.Principals)-1).Draw(rt, label+"dswap")
			df.Principals[i] = keyPrin(rapid.SampledFrom(free).Draw(rt, label+"dnew"))
		}
		r.Principals = indices(len(df.Principals))
		if r.Threshold > len(df.Principals) {
			r.Threshold = len(df.Principals)
		}
		spec.Delegated["protect-main"] = df
		classes["policy_change_delegated_file_only"] = true
	}
	resign()
	classes["policy_derived_"+kind] = true
	return spec
}

// wgState tracks the abstract state while generating events.
type wgState struct {
	w        *kit.World
	pol      int
	lastPush map[string]int
	everKeys map[int]bool
}

func (g *wgState) spec() *kit.PolicySpec { return &g.w.Policies[g.pol] }

// genWorld draws a complete world. classes receives labels of what was built.
func genWorld(rt *rapid.T, opt wgOptions, classes map[string]bool) kit.World {
	w := kit.World{}
	npol := rapid.IntRange(1, 4).Draw(rt, "npolicies")
	if opt.Delegation {
		opt.delegShape = rapid.SampledFrom([]int{0, 0, 0, 1, 1, 2}).Draw(rt, "delegshape")
	}
	for i := 0; i < npol; i++ {
		// later states are either drawn afresh or derived from their predecessor by
		// one small edit (the usual way a key loses or gains authority), including
		// edits that touch nothing but a delegated rule file
		if i > 0 && rapid.Bool().Draw(rt, fmt.Sprintf("p%dderived", i)) {
			w.Policies = append(w.Policies, derivePolicy(rt, w.Policies[i-1], fmt.Sprintf("p%d", i), classes))
			continue
		}
		w.Policies = append(w.Policies, genPolicy(rt, opt, fmt.Sprintf("p%d", i)))
	}
	g := &wgState{w: &w, lastPush: map[string]int{}, everKeys: map[int]bool{}}
	w.Events = append(w.Events, kit.Event{Kind: "policy", Policy: 0, Signer: -1})
	class := rapid.SampledFrom([]string{"authorized", "authorized", "violation", "recovery", "mixed", "mixed"}).Draw(rt, "class")
	classes["class_"+class] = true
	maxEv := opt.MaxEvents
	if maxEv == 0 {
		maxEv = 24
	}
	n := rapid.IntRange(1, maxEv).Draw(rt, "nevents")
	for len(w.Events) < n+1 {
		kind := rapid.SampledFrom([]string{"push", "push", "push", "push", "approve", "annotate", "policy", "other", "prop"}).Draw(rt, "evkind")
		switch kind {
		case "policy":
			if g.pol+1 < len(w.Policies) {
				g.pol++
				w.Events = append(w.Events, kit.Event{Kind: "policy", Policy: g.pol, Signer: -1})
				classes["policy_change"] = true
			}
		case "other":
			w.Events = append(w.Events, kit.Event{Kind: "other", Ref: "refs/heads/unrelated", Tree: rapid.IntRange(0, 3).Draw(rt, "otree"), Signer: -1})
		case "prop":
			ref := "refs/heads/scratch"
			if opt.PropProtected {
				ref = rapid.SampledFrom(wgRefs).Draw(rt, "propref")
			}
			w.Events = append(w.Events, kit.Event{Kind: "prop", Ref: ref, Tree: rapid.IntRange(0, 4).Draw(rt, "ptree"), Signer: rapid.SampledFrom([]int{-1, 0, 1, wgUnknownKey}).Draw(rt, "psigner")})
			g.lastPush[ref] = len(w.Events) - 1
			classes["propagation_entry"] = true
		case "annotate":
			var pushes []int
			for i, e := range w.Events {
				if e.Kind == "push" {
					pushes = append(pushes, i)
				}
			}
			if len(pushes) == 0 {
				continue
			}
			k := rapid.IntRange(1, min(3, len(pushes))).Draw(rt, "ntargets")
			ts := rapid.Permutation(pushes).Draw(rt, "targets")[:k]
			w.Events = append(w.Events, kit.Event{Kind: "annotate", Targets: append([]int{}, ts...), Skip: rapid.IntRange(0, 3).Draw(rt, "skip") != 0, Signer: rapid.SampledFrom([]int{-1, 0, 1}).Draw(rt, "asigner")})
			classes["annotation"] = true
		case "approve":
			g.genApproval(rt, classes, rapid.SampledFrom(wgRefs).Draw(rt, "aref"), rapid.IntRange(0, 4).Draw(rt, "atree"), -1, 0)
		case "push":
			g.genPush(rt, class, classes)
		}
	}
	w.Normalise()
	return w
}

// genApproval appends an approve event with a well-filed authorization for
// (ref, current state, tree). exclude: key index that must not sign (-1 none);
// need: minimum number of distinct rule principals that must sign (0 = random).
func (g *wgState) genApproval(rt *rapid.T, classes map[string]bool, ref string, tree, exclude, need int) {
	var cand []int
	for _, r := range kit.Consulted(g.spec(), "git:"+ref) {
		for _, p := range r.Principals {
			if p.Keys[0] != exclude {
				cand = append(cand, p.Keys[0])
			}
		}
		break
	}
	var signers []int
	if need > 0 && len(cand) >= need {
		signers = rapid.Permutation(uniqInts(cand)).Draw(rt, "apsigners")
		if len(signers) > need {
			signers = signers[:need]
		}
	} else {
		k := rapid.IntRange(0, 3).Draw(rt, "napprovers")
		for i := 0; i < k; i++ {
			signers = append(signers, rapid.SampledFrom([]int{0, 1, 2, 3, 4, 5, wgUnknownKey}).Draw(rt, "apkey"))
		}
		signers = uniqInts(signers)
	}
	// a person holding two keys may sign with both: still one principal
	for _, p := range kit.AllPrincipals(g.spec()) {
		if len(p.Keys) == 2 {
			for _, k := range signers {
				if k == p.Keys[0] && rapid.Bool().Draw(rt, "bothkeys") {
					signers = append(signers, p.Keys[1])
					classes["approval_signed_with_both_keys_of_a_person"] = true
					break
				}
			}
		}
	}
	c := kit.Change{Ref: ref, From: -2, To: tree}
	kind := rapid.SampledFrom([]string{"auth", "auth", "auth01"}).Draw(rt, "authkind")
	w := g.w
	w.Events = append(w.Events, kit.Event{Kind: "approve", Signer: -1, Items: []kit.AttItem{{Kind: kind, Stmt: c, Path: c, Signers: signers}}})
	classes["approval"] = true
}

func uniqInts(xs []int) []int {
	seen := map[int]bool{}
	out := []int{}
	for _, x := range xs {
		if !seen[x] {
			seen[x] = true
			out = append(out, x)
		}
	}
	return out
}

func (g *wgState) genPush(rt *rapid.T, class string, classes map[string]bool) {
	w := g.w
	ref := rapid.SampledFrom([]string{"refs/heads/main", "refs/heads/main", "refs/heads/release", "refs/heads/scratch"}).Draw(rt, "pushref")
	tree := rapid.IntRange(0, 4).Draw(rt, "pushtree")
	rules := kit.Consulted(g.spec(), "git:"+ref)
	good := true
	switch class {
	case "violation", "recovery":
		good = rapid.IntRange(0, 3).Draw(rt, "good") != 0
	case "mixed":
		good = rapid.Bool().Draw(rt, "good")
	}
	force := rapid.IntRange(0, 7).Draw(rt, "force") == 0
	if class == "recovery" && !good {
		// violation + revocation + fix restoring the last good tree
		prev, ok := g.lastPush[ref]
		if ok && w.Events[prev].Kind == "push" {
			bad := kit.Event{Kind: "push", Ref: ref, Tree: tree, Signer: rapid.SampledFrom([]int{-1, wgUnknownKey, 6, 7}).Draw(rt, "badsigner")}
			w.Events = append(w.Events, bad)
			bi := len(w.Events) - 1
			w.Events = append(w.Events, kit.Event{Kind: "annotate", Targets: []int{bi}, Skip: true, Signer: -1})
			fixSigner := rapid.SampledFrom([]int{-1, 0, 1, wgUnknownKey}).Draw(rt, "fixsigner")
			w.Events = append(w.Events, kit.Event{Kind: "push", Ref: ref, Tree: w.Events[prev].Tree, Signer: fixSigner})
			g.lastPush[ref] = len(w.Events) - 1
			classes["recovery_pattern"] = true
			return
		}
	}
	ev := kit.Event{Kind: "push", Ref: ref, Tree: tree, Force: force}
	if len(rules) == 0 {
		ev.Signer = rapid.SampledFrom([]int{-1, 0, 3, wgUnknownKey}).Draw(rt, "unprotsigner")
	} else if good {
		r := rules[rapid.IntRange(0, len(rules)-1).Draw(rt, "whichrule")]
		si := rapid.IntRange(0, len(r.Principals)-1).Draw(rt, "signeridx")
		ev.Signer = r.Principals[si].Keys[0]
		if r.Threshold > 1 {
			// approvals by other principals of the same rule, for exactly this change
			var others []int
			for _, p := range r.Principals {
				if p.Keys[0] != ev.Signer {
					others = append(others, p.Keys[0])
				}
			}
			c := kit.Change{Ref: ref, From: -2, To: tree}
			w.Events = append(w.Events, kit.Event{Kind: "approve", Signer: -1, Items: []kit.AttItem{{Kind: "auth", Stmt: c, Path: c, Signers: others[:r.Threshold-1]}}})
			classes["approval_dependent"] = true
		}
	} else {
		kind := rapid.SampledFrom([]string{"none", "unknown", "other-principal", "deauthorized"}).Draw(rt, "badkind")
		switch kind {
		case "none":
			ev.Signer = -1
		case "unknown":
			ev.Signer = wgUnknownKey
		case "deauthorized":
			// a key an earlier policy state authorised for this ref and the one in force does not
			now := map[int]bool{}
			for _, r := range rules {
				for _, p := range r.Principals {
					now[p.Keys[0]] = true
				}
			}
			var was []int
			for pi := 0; pi < g.pol; pi++ {
				for _, r := range kit.Consulted(&w.Policies[pi], "git:"+ref) {
					for _, p := range r.Principals {
						if !now[p.Keys[0]] {
							was = append(was, p.Keys[0])
						}
					}
				}
			}
			was = uniqInts(was)
			if len(was) > 0 {
				ev.Signer = rapid.SampledFrom(was).Draw(rt, "deauthkey")
				classes["deauthorized_signer"] = true
			} else {
				ev.Signer = rapid.IntRange(0, 8).Draw(rt, "anykey")
			}
		default:
			ev.Signer = rapid.IntRange(0, 8).Draw(rt, "anykey")
		}
		classes["bad_signer_"+kind] = true
	}
	w.Events = append(w.Events, ev)
	g.lastPush[ref] = len(w.Events) - 1
}

// ---- running a world against the implementation ---------------------------------

type worldResult struct {
	Tip string
	Err error
}

func verifyFull(st kit.RawStore, ref string) worldResult {
	rsl.VerifResetCache()
	tip, err := kit.RunVerifyFull(st, ref)
	r := worldResult{Err: err}
	if err == nil {
		r.Tip = tip.String()
	}
	return r
}

// compareVerdict checks an implementation result against the model's verdict.
func compareVerdict(b *kit.Built, v kit.Verdict, got worldResult, what string) *kit.Failure {
	switch v.Kind {
	case "UNSPECIFIED":
		return nil
	case "ACCEPT":
		if got.Err != nil {
			return &kit.Failure{Cause: "false-reject", Msg: fmt.Sprintf("%s: model ACCEPT (tip = commit of event %d) but verification failed: %v", what, v.Tip, got.Err)}
		}
		if got.Tip != b.Commit[v.Tip] {
			return &kit.Failure{Cause: "wrong-tip", Msg: fmt.Sprintf("%s: verified tip %s, expected commit of event %d = %s", what, got.Tip, v.Tip, b.Commit[v.Tip])}
		}
	case "REJECT":
		if got.Err == nil {
			return &kit.Failure{Cause: "false-accept", Msg: fmt.Sprintf("%s: verification succeeded (tip %s) but the model rejects: %s", what, got.Tip, v.Why)}
		}
	}
	return nil
}

// isVerificationError reports whether err is one of the errors verification is
// documented to fail with (as opposed to an I/O or internal error).
func isVerificationError(err error) bool {
	for _, e := range []error{policy.ErrVerificationFailed, policy.ErrInvalidEntryNotSkipped, policy.ErrLastGoodEntryIsSkipped, policy.ErrPolicyNotFound, rsl.ErrRSLEntryNotFound, policy.ErrVerifierConditionsUnmet} {
		if errors.Is(err, e) {
			return true
		}
	}
	return false
}

// confirmOnGit rebuilds the world on a real repository and re-evaluates check;
// a memstore-only failure is a harness problem, never a finding.
func confirmOnGit(t *testing.T, w *kit.World, f *kit.Failure, check func(b *kit.Built) *kit.Failure) *kit.Failure {
	if f == nil {
		return nil
	}
	if kit.ReplayPath() == "" {
		// while rapid searches and shrinks, stay on the fast backend; the driver
		// replays every reported case, and that replay is confirmed on real git
		return f
	}
	dir, err := os.MkdirTemp("", "confirm-")
	if err != nil {
		panic(err)
	}
	defer os.RemoveAll(dir)
	g := kit.NewGitStore(t, dir, true)
	rsl.VerifResetCache()
	b, err := kit.BuildWorld(g, w)
	if err != nil {
		return &kit.Failure{Cause: "backend-disagreement", Msg: fmt.Sprintf("world builds on memstore but not on git: %v (memstore failure was: %s)", err, f.Msg)}
	}
	f2 := check(b)
	if f2 == nil {
		return &kit.Failure{Cause: "backend-disagreement", Msg: "failure on memstore does not reproduce on real git: " + f.Msg}
	}
	f2.Msg += " [reproduced on a real git repository]"
	return f2
}
