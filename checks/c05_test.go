//go:build verif

package verifchecks

import (
	"context"
	"encoding/base64"
	"errors"
	"fmt"
	"sort"
	"testing"

	"github.com/gittuf/gittuf/internal/policy"
	"github.com/gittuf/gittuf/internal/signerverifier/dsse"
	sslibdsse "github.com/gittuf/gittuf/internal/third_party/go-securesystemslib/dsse"
	"github.com/gittuf/gittuf/internal/tuf"
	kit "github.com/gittuf/gittuf/internal/verifkit"
	"github.com/gittuf/gittuf/pkg/githash"
	"pgregory.net/rapid"
)

// ---------------------------------------------------------------------------
// C05 - Thresholds count distinct trusted principals, each with a distinct valid key
// ---------------------------------------------------------------------------

type c05Prin struct {
	Kind string `json:"kind"` // v01key | v02key | person
	ID   string `json:"id,omitempty"`
	Keys []int  `json:"keys"`
}

type c05Sig struct {
	Key    int    `json:"key"`
	KeyID  string `json:"keyid"`  // own | empty | other
	Lifted bool   `json:"lifted"` // signature made over a different payload
}

type c05Case struct {
	Prins     []c05Prin `json:"prins"`
	Threshold int       `json:"threshold"`
	Exhaustive bool     `json:"exhaustive,omitempty"` // the verifier is the exhaustive one used for global rules (threshold ignored)
	Git       int       `json:"git"` // -2: no git object, -1: unsigned object, k: signed by key k
	NoEnv     bool      `json:"no_env"`
	// Warm: before the envelope under test is verified, the envelope the lifted
	// signatures were taken from (same signatures, their own payload) is verified
	// by the same verifier - as happens when a repository holds both attestations.
	Warm bool `json:"warm,omitempty"`
	Sigs      []c05Sig  `json:"sigs"`
}

func (p c05Prin) pid() string {
	if p.Kind == "person" {
		return p.ID
	}
	return kit.Key(p.Keys[0]).KeyID
}

func (p c05Prin) principal() tuf.Principal {
	switch p.Kind {
	case "v01key":
		return kit.Key(p.Keys[0]).V01()
	case "v02key":
		return kit.Key(p.Keys[0]).V02()
	}
	ks := []*kit.TestKey{}
	for _, k := range p.Keys {
		ks = append(ks, kit.Key(k))
	}
	return kit.Person(p.ID, nil, ks...)
}

func genC05(rt *rapid.T) c05Case {
	c := c05Case{}
	np := rapid.SampledFrom([]int{0, 1, 2, 2, 3, 3, 3, 4, 4, 4}).Draw(rt, "nprins")
	shared := rapid.IntRange(0, 2).Draw(rt, "shared") == 0
	used := map[int]bool{}
	ids := map[string]bool{}
	for i := 0; i < np; i++ {
		kind := rapid.SampledFrom([]string{"v01key", "v02key", "person", "person"}).Draw(rt, "kind")
		p := c05Prin{Kind: kind}
		nk := 1
		if kind == "person" {
			nk = rapid.IntRange(1, 2).Draw(rt, "nkeys")
			p.ID = fmt.Sprintf("person-%d", i)
		}
		for j := 0; j < nk; j++ {
			var k int
			for try := 0; try < 30; try++ {
				k = rapid.IntRange(0, 5).Draw(rt, "key")
				if shared || !used[k] {
					break
				}
				k = -1
			}
			if k < 0 {
				continue
			}
			dupInP := false
			for _, x := range p.Keys {
				if x == k {
					dupInP = true
				}
			}
			if !dupInP {
				p.Keys = append(p.Keys, k)
				used[k] = true
			}
		}
		if len(p.Keys) == 0 || ids[p.pid()] {
			continue
		}
		ids[p.pid()] = true
		c.Prins = append(c.Prins, p)
	}
	if rapid.IntRange(0, 11).Draw(rt, "oddthreshold") == 0 {
		c.Threshold = rapid.SampledFrom([]int{0, 0, 5, -1}).Draw(rt, "threshold0")
	} else {
		hi := len(c.Prins) + 1
		if hi > 5 {
			hi = 5
		}
		c.Threshold = rapid.IntRange(1, hi).Draw(rt, "threshold")
	}
	c.Exhaustive = rapid.IntRange(0, 4).Draw(rt, "exhaustive") == 0
	c.Git = rapid.SampledFrom([]int{-2, -1, 0, 1, 2, 3, 4, 5, 6, 7}).Draw(rt, "git")
	c.NoEnv = rapid.IntRange(0, 4).Draw(rt, "noenv") == 0
	if !c.NoEnv {
		ns := rapid.IntRange(0, 6).Draw(rt, "nsigs")
		for i := 0; i < ns; i++ {
			sg := c05Sig{Key: rapid.IntRange(0, 7).Draw(rt, "sigkey"), KeyID: "own"}
			if len(c.Prins) > 0 && rapid.Bool().Draw(rt, "trustedsigner") {
				p := c.Prins[rapid.IntRange(0, len(c.Prins)-1).Draw(rt, "sp")]
				sg.Key = p.Keys[rapid.IntRange(0, len(p.Keys)-1).Draw(rt, "sk")]
			}
			switch rapid.IntRange(0, 7).Draw(rt, "keyidmode") {
			case 0:
				sg.KeyID = "empty"
			case 1:
				sg.KeyID = "other"
			}
			sg.Lifted = rapid.IntRange(0, 5).Draw(rt, "lifted") == 0
			c.Sigs = append(c.Sigs, sg)
		}
		c.Warm = rapid.Bool().Draw(rt, "warm")
	}
	return c
}

func c05OtherPayload(warm bool) []byte {
	if warm {
		return []byte(`{"statement":"B","verified-elsewhere":true}`)
	}
	return []byte(`{"statement":"B"}`)
}

// maxMatching: principals -> distinct keys among the valid signer keys.
func maxMatching(prins []c05Prin, valid map[int]bool) int {
	matchKey := map[int]int{} // key -> principal index
	var try func(p int, seen map[int]bool) bool
	try = func(p int, seen map[int]bool) bool {
		for _, k := range prins[p].Keys {
			if !valid[k] || seen[k] {
				continue
			}
			seen[k] = true
			if q, ok := matchKey[k]; !ok || try(q, seen) {
				matchKey[k] = p
				return true
			}
		}
		return false
	}
	n := 0
	for p := range prins {
		if try(p, map[int]bool{}) {
			n++
		}
	}
	return n
}

func runC05(s *kit.Session, c c05Case) *kit.Failure {
	st := kit.NewMemStore()
	empty, _ := st.EmptyTree()
	var gitID githash.Hash
	if c.Git >= -1 {
		var signer *kit.TestKey
		if c.Git >= 0 {
			signer = kit.Key(c.Git)
		}
		id, err := st.RawCommit(empty, nil, "RSL Reference Entry\n\nref: refs/heads/main\ntargetID: 0000000000000000000000000000000000000000\nnumber: 1", signer)
		if err != nil {
			panic(err)
		}
		gitID = id
	}
	var env *sslibdsse.Envelope
	if !c.NoEnv {
		payload := []byte(`{"statement":"A"}`)
		// the payload the lifted signatures were made over. It differs between
		// warm and cold cases so that a cold case's lifted signatures are never
		// validly verified anywhere in the process: every case then fails or
		// passes on its own, whatever ran before it (replayable from a fresh process).
		other := c05OtherPayload(c.Warm)
		env = &sslibdsse.Envelope{PayloadType: dsse.PayloadType, Payload: base64.StdEncoding.EncodeToString(payload), Signatures: []sslibdsse.Signature{}}
		for _, sg := range c.Sigs {
			k := kit.Key(sg.Key)
			data := sslibdsse.PAE(dsse.PayloadType, payload)
			if sg.Lifted {
				data = sslibdsse.PAE(dsse.PayloadType, other)
			}
			sig := sslibdsse.Signature{Sig: base64.StdEncoding.EncodeToString(k.SignSSH(data))}
			switch sg.KeyID {
			case "own":
				sig.KeyID = k.KeyID
			case "other":
				sig.KeyID = kit.Key((sg.Key + 1) % 8).KeyID
			}
			env.Signatures = append(env.Signatures, sig)
		}
	}
	var principals []tuf.Principal
	for _, p := range c.Prins {
		principals = append(principals, p.principal())
	}
	v := policy.VerifNewVerifier(st, "rule", principals, c.Threshold)
	if c.Exhaustive {
		v = policy.VerifNewExhaustiveVerifier(st, "exhaustive", principals)
	}
	if c.Warm && env != nil && len(c.Prins) > 0 {
		// the source of the lifted signatures: valid there, must not become valid here
		src := &sslibdsse.Envelope{PayloadType: dsse.PayloadType, Payload: base64.StdEncoding.EncodeToString(c05OtherPayload(true))}
		for i, sg := range c.Sigs {
			if sg.Lifted {
				src.Signatures = append(src.Signatures, env.Signatures[i])
			}
		}
		if len(src.Signatures) > 0 {
			_, _ = policy.VerifNewExhaustiveVerifier(st, "warm", principals).Verify(context.Background(), githash.ZeroHash, src)
		}
	}
	got, err := v.Verify(context.Background(), gitID, env)

	// oracle
	upper, lower := map[int]bool{}, map[int]bool{}
	if c.Git >= 0 {
		upper[c.Git], lower[c.Git] = true, true
	}
	for _, sg := range c.Sigs {
		if sg.Lifted {
			continue
		}
		upper[sg.Key] = true
		if sg.KeyID != "other" {
			lower[sg.Key] = true
		}
	}
	fail := func(cause, f string, a ...any) *kit.Failure {
		var ids []string
		if got != nil {
			ids = got.Contents()
			sort.Strings(ids)
		}
		return &kit.Failure{Cause: cause, Msg: fmt.Sprintf("%s (Verify returned principals=%v err=%v)", fmt.Sprintf(f, a...), ids, err)}
	}
	sharedKeys := false
	cnt := map[int]int{}
	for _, p := range c.Prins {
		for _, k := range p.Keys {
			cnt[k]++
			if cnt[k] > 1 {
				sharedKeys = true
			}
		}
	}
	if c.Exhaustive && len(c.Prins) > 0 {
		// the exhaustive verifier reports who is authenticated; global thresholds
		// count its answer, so it must never credit more principals than can be
		// matched to distinct validly signing keys, nor a principal that did not sign
		mUp, mLow := maxMatching(c.Prins, upper), maxMatching(c.Prins, lower)
		if err != nil {
			if !(env != nil && len(env.Signatures) == 0) {
				return fail("unexpected-error", "the exhaustive verifier failed")
			}
			s.Observe(c, false, "exhaustive", "envelope_without_signatures")
			return nil
		}
		n := 0
		if got != nil {
			n = got.Len()
			signed := map[string]bool{}
			for _, p := range c.Prins {
				for _, k := range p.Keys {
					if upper[k] {
						signed[p.pid()] = true
					}
				}
			}
			for _, id := range got.Contents() {
				if !signed[id] {
					return fail("credited-nonsigner", "principal %s was authenticated but none of its keys validly signed", id)
				}
			}
		}
		if n > mUp {
			return fail("threshold-overcount", "the exhaustive verifier authenticated %d principals but only %d can be matched to distinct validly signing keys", n, mUp)
		}
		if !sharedKeys && n < mLow {
			return fail("threshold-undercount", "principals share no keys and %d of them signed validly but only %d were authenticated", mLow, n)
		}
		s.Observe(c, len(c.Prins) >= 2 && (sharedKeys || n >= 2), "exhaustive")
		return nil
	}
	if c.Threshold < 1 || len(c.Prins) == 0 {
		if err == nil {
			return fail("invalid-verifier-satisfied", "a rule with threshold %d and %d principals was satisfied", c.Threshold, len(c.Prins))
		}
		if !errors.Is(err, policy.ErrInvalidVerifier) {
			return fail("invalid-verifier-error", "expected ErrInvalidVerifier")
		}
		s.Observe(c, false, "invalid_verifier")
		return nil
	}
	mUp, mLow := maxMatching(c.Prins, upper), maxMatching(c.Prins, lower)
	if err == nil {
		if mUp < c.Threshold {
			return fail("threshold-overcount", "rule satisfied although at most %d distinct principals with distinct valid keys signed (threshold %d)", mUp, c.Threshold)
		}
		if got == nil || got.Len() < c.Threshold {
			return fail("returned-set", "success with fewer returned principals than the threshold")
		}
	}
	if got != nil {
		signedPrins := map[string]bool{}
		for _, p := range c.Prins {
			for _, k := range p.Keys {
				if upper[k] {
					signedPrins[p.pid()] = true
				}
			}
		}
		for _, id := range got.Contents() {
			if !signedPrins[id] {
				return fail("credited-nonsigner", "principal %s was credited but none of its keys validly signed", id)
			}
		}
		if got.Len() > mUp {
			return fail("threshold-overcount", "%d principals credited but only %d can be matched to distinct valid keys", got.Len(), mUp)
		}
	}
	if !sharedKeys && mLow >= c.Threshold && err != nil {
		return fail("threshold-undercount", "principals share no keys and %d of them signed validly (threshold %d) but the rule was not satisfied", mLow, c.Threshold)
	}
	if err != nil && !errors.Is(err, policy.ErrVerifierConditionsUnmet) {
		// other errors are allowed only when the envelope carries no signature at all
		if !(env != nil && len(env.Signatures) == 0) {
			return fail("unexpected-error", "unexpected error kind")
		}
	}
	dupSig := false
	seenSig := map[int]bool{}
	lifted := false
	twoKeyPersonBoth := false
	gitAndEnvSame := false
	for _, sg := range c.Sigs {
		if seenSig[sg.Key] {
			dupSig = true
		}
		seenSig[sg.Key] = true
		lifted = lifted || sg.Lifted
	}
	for _, p := range c.Prins {
		n := 0
		for _, k := range p.Keys {
			if upper[k] {
				n++
			}
			if c.Git == k && seenSig[k] {
				gitAndEnvSame = true
			}
		}
		if len(p.Keys) == 2 && n == 2 {
			twoKeyPersonBoth = true
		}
		if c.Git >= 0 && len(p.Keys) == 2 && (p.Keys[0] == c.Git && seenSig[p.Keys[1]] || p.Keys[1] == c.Git && seenSig[p.Keys[0]]) {
			gitAndEnvSame = true
		}
	}
	nt := len(c.Prins) >= 2 && (sharedKeys || twoKeyPersonBoth || dupSig || lifted || gitAndEnvSame)
	classes := []string{}
	if sharedKeys {
		classes = append(classes, "shared_keys")
	}
	if twoKeyPersonBoth {
		classes = append(classes, "person_both_keys_signed")
	}
	if lifted {
		classes = append(classes, "lifted_signature")
	}
	if err == nil {
		classes = append(classes, "satisfied")
	}
	s.Observe(c, nt, classes...)
	return nil
}


// c05Shapes lists the principal shapes of the bounded-exhaustive enumeration:
// keys 0..2 are the ones principals may hold, key 3 is never trusted.
func c05Shapes() []c05Prin {
	var out []c05Prin
	for k := 0; k < 3; k++ {
		out = append(out, c05Prin{Kind: "v02key", Keys: []int{k}})
	}
	for k := 0; k < 3; k++ {
		out = append(out, c05Prin{Kind: "v01key", Keys: []int{k}})
	}
	for k := 0; k < 3; k++ {
		out = append(out, c05Prin{Kind: "person", Keys: []int{k}})
	}
	for _, pr := range [][]int{{0, 1}, {0, 2}, {1, 2}} {
		out = append(out, c05Prin{Kind: "person", Keys: pr})
	}
	return out
}

// c05EnumRules lists every rule over at most maxP principals drawn from
// c05Shapes (principal ids distinct; order matters because the verifier
// consults principals in order).
func c05EnumRules(maxP int) [][]c05Prin {
	shapes := c05Shapes()
	out := [][]c05Prin{{}}
	var rec func(cur []c05Prin)
	rec = func(cur []c05Prin) {
		if len(cur) == maxP {
			return
		}
		for _, sh := range shapes {
			p := sh
			if p.Kind == "person" {
				p.ID = fmt.Sprintf("person-%d", len(cur))
			}
			dup := false
			for _, q := range cur {
				if q.pid() == p.pid() {
					dup = true
				}
			}
			if dup {
				continue
			}
			next := append(append([]c05Prin{}, cur...), p)
			out = append(out, next)
			rec(next)
		}
	}
	rec(nil)
	return out
}

// c05EnumCase maps an index to a case: rule x threshold 0..4 x Git signer
// {none, unsigned, key 0..3} x envelope {absent, every subset of keys 0..3}.
func c05EnumCase(rules [][]c05Prin, i int) (c05Case, bool) {
	const nThr, nGit, nEnv = 6, 6, 17 // threshold index 5 = the exhaustive verifier
	per := nThr * nGit * nEnv
	if i >= len(rules)*per {
		return c05Case{}, false
	}
	r := rules[i/per]
	j := i % per
	c := c05Case{Prins: r, Threshold: j % nThr}
	if c.Threshold == 5 {
		c.Threshold, c.Exhaustive = 1, true
	}
	j /= nThr
	c.Git = j%nGit - 2
	j /= nGit
	if j == 16 {
		c.NoEnv = true
	} else {
		for k := 0; k < 4; k++ {
			if j&(1<<k) != 0 {
				c.Sigs = append(c.Sigs, c05Sig{Key: k, KeyID: "own"})
			}
		}
	}
	return c, true
}

func TestC05(t *testing.T) {
	s := kit.Open(t, "C05")
	run := func(c c05Case) *kit.Failure { return runC05(s, c) }
	if rf := kit.Replay(t); rf != nil {
		kit.DoReplay(s, t, rf, run)
		return
	}
	s.SetRule("rapid: rules over 0-4 principals (v0.1 keys, v0.2 keys, persons with 1-2 keys; keys shared between principals in a third of the cases), thresholds 0..5 (one case in five uses the exhaustive verifier that global rules count with), Git object {absent, unsigned, signed by a trusted or an untrusted key}, envelope {absent, 0-6 signatures by any multiset of trusted/untrusted keys, with own/empty/foreign keyid fields, some lifted from another payload - in half of the cases that other envelope is verified first by the same process}. Oracle: maximum bipartite matching principal-key over validly signing keys; soundness always, exactness when principals share no keys. Plus a bounded-exhaustive enumeration (see enumeration_bound). Non-trivial: >=2 principals and (shared key | person whose two keys both signed | duplicate or lifted signature | Git and envelope signature by the same principal)")
	kit.Campaign(s, t, "verify", "verify", s.Budget(40_000, 1_000_000), genC05, run)
	// bounded-exhaustive part of the quantifier: every rule over <=2 (quick) /
	// <=3 (thorough) principals x every threshold x every Git signer x every
	// subset of envelope signers
	maxP := 2
	if s.Thorough() {
		maxP = 3
	}
	rules := c05EnumRules(maxP)
	ok := kit.Enumerate(s, t, "enum", "verify", func(i int) (c05Case, bool) { return c05EnumCase(rules, i) }, run)
	s.SetExhaustive(ok)
	s.SetExtra("enumerated_rules", fmt.Sprintf("%d rules x 612 = %d cases", len(rules), len(rules)*612))
	s.SetExtra("enumeration_bound", fmt.Sprintf("all ordered rules over <=%d principals of 12 shapes (v0.1 key, v0.2 key, one-key person, two-key person over keys 0..2) x {thresholds 0..4, the exhaustive verifier} x Git object {absent, unsigned, signed by key 0..3} x envelope {absent, every subset of keys 0..3 as signers}; key 3 is never trusted", maxP))
}
