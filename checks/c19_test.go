//go:build verif

package verifchecks

import (
	"context"
	"fmt"
	"testing"

	"github.com/gittuf/gittuf/internal/policy"
	kit "github.com/gittuf/gittuf/internal/verifkit"
	"github.com/gittuf/gittuf/pkg/rsl"
	"pgregory.net/rapid"
)

// ---------------------------------------------------------------------------
// C19 - Mergeability predictions agree with verification of the predicted merge
// ---------------------------------------------------------------------------

type c19Case struct {
	World    kit.World `json:"world"` // up to and including the approvals; the merge is added per recorder
	Tree     int       `json:"tree"`  // tree of the feature tip (== predicted merge tree: the base is an ancestor)
	NPrins   int       `json:"nprins"`
	FileRule bool      `json:"file_rule"`
	Labels   []string  `json:"labels"`
}

func c19Policy(threshold, nprins int, fileRule bool, fileThreshold int, globalThr int, hasApp, appTrusted bool) kit.PolicySpec {
	spec := c09Policy(threshold, appTrusted, hasApp, nprins)
	if fileRule {
		spec.Targets.Rules = append(spec.Targets.Rules, kit.RuleSpec{Name: "protect-src", Patterns: []string{"file:src/*"}, Principals: indices(min(2, nprins)), Threshold: fileThreshold})
	}
	if globalThr > 0 {
		spec.Globals = []kit.GlobalSpec{{Name: "two-eyes", Kind: "threshold", Patterns: []string{"git:refs/heads/main"}, Threshold: globalThr}}
	}
	return spec
}

func genC19(rt *rapid.T) c19Case {
	c := c19Case{}
	labels := map[string]bool{}
	c.NPrins = rapid.IntRange(2, 4).Draw(rt, "nprins")
	thr := rapid.IntRange(1, min(3, c.NPrins)).Draw(rt, "threshold")
	c.FileRule = rapid.IntRange(0, 2).Draw(rt, "filerule") == 0
	globalThr := 0
	if rapid.IntRange(0, 3).Draw(rt, "global") == 0 {
		globalThr = rapid.IntRange(1, 3).Draw(rt, "globalthr")
		labels["global_threshold_rule"] = true
	}
	hasApp := rapid.Bool().Draw(rt, "hasapp")
	w := &c.World
	permissive := c19Policy(1, c.NPrins, false, 1, 0, hasApp, true)
	under := c19Policy(thr, c.NPrins, c.FileRule, 1, globalThr, hasApp, rapid.IntRange(0, 4).Draw(rt, "apptrusted") != 0)
	w.Policies = []kit.PolicySpec{permissive, under}
	w.Events = append(w.Events, kit.Event{Kind: "policy", Policy: 0, Signer: -1})
	withBase := rapid.IntRange(0, 3).Draw(rt, "withbase") != 0
	baseEvt := -1
	if withBase {
		w.Events = append(w.Events, kit.Event{Kind: "push", Ref: "refs/heads/main", Tree: 100, Signer: 0, CSigner: 1})
		baseEvt = len(w.Events) - 1
	}
	w.Events = append(w.Events, kit.Event{Kind: "policy", Policy: 1, Signer: -1})
	// feature history: 1-3 commits
	nc := rapid.IntRange(1, 3).Draw(rt, "ncommits")
	// mixed authorship of the protected path: one commit by a person the file rule
	// trusts, another by someone it does not, both changing files under the rule
	mixed := c.FileRule && nc >= 2 && rapid.IntRange(0, 2).Draw(rt, "mixed") == 0
	if mixed {
		labels["protected_path_changed_by_trusted_and_untrusted_commits"] = true
	}
	tree := 100
	for i := 0; i < nc; i++ {
		a, d := (tree-100)%5, ((tree-100)/5)%5
		if c.FileRule && (mixed || rapid.Bool().Draw(rt, "touchsrc")) {
			a = a%4 + 1
			labels["feature_touches_protected_path"] = true
		} else {
			d = d%4 + 1
		}
		tree = 100 + a + 5*d
		csigner := rapid.SampledFrom([]int{0, 1, 2, 3, 4, wgUnknownKey + 1}).Draw(rt, "csigner") // 0 = unsigned, k+1 = key k
		if mixed {
			if i%2 == 0 {
				csigner = rapid.SampledFrom([]int{1, 2}).Draw(rt, "trustedsigner") // dev0 / dev1: trusted by protect-src
			} else {
				csigner = rapid.SampledFrom([]int{0, 3, 4, wgUnknownKey + 1}).Draw(rt, "untrustedsigner")
			}
		}
		ev := kit.Event{Kind: "push", Ref: "refs/heads/feature", Tree: tree, Signer: -1, CSigner: csigner}
		if i == 0 {
			ev.Base = "refs/heads/main"
		}
		w.Events = append(w.Events, ev)
	}
	c.Tree = tree
	change := kit.Change{Ref: "refs/heads/main", From: baseEvt, To: tree}
	// prior approvals for exactly this change
	var items []kit.AttItem
	if rapid.IntRange(0, 3).Draw(rt, "hasauth") != 0 {
		k := rapid.IntRange(1, 3).Draw(rt, "nsigners")
		var signers []int
		for j := 0; j < k; j++ {
			signers = append(signers, rapid.SampledFrom([]int{0, 1, 2, 3, wgUnknownKey}).Draw(rt, "signer"))
		}
		items = append(items, kit.AttItem{Kind: "auth", Stmt: change, Path: change, Signers: uniqInts(signers)})
	}
	if hasApp && rapid.Bool().Draw(rt, "hasappapproval") {
		k := rapid.IntRange(1, 2).Draw(rt, "napprovers")
		var approvers []string
		for j := 0; j < k; j++ {
			approvers = append(approvers, rapid.SampledFrom([]string{"gh-dev0", "gh-dev1", "gh-dev2", "gh-dev3", "gh-stranger"}).Draw(rt, "approver"))
		}
		items = append(items, kit.AttItem{Kind: "app", Stmt: change, Path: change, Signers: []int{wgAppKey}, App: c09App, Approvers: uniqStrs(approvers)})
		labels["app_approval"] = true
	}
	if len(items) > 0 {
		w.Events = append(w.Events, kit.Event{Kind: "approve", Signer: -1, Items: items})
		labels["prior_approval"] = true
	}
	w.Normalise()
	c.Labels = sortedKeys(labels)
	if thr >= 2 {
		c.Labels = append(c.Labels, "threshold_ge_2")
	}
	return c
}

func runC19(t *testing.T, s *kit.Session, c c19Case) *kit.Failure {
	w := c.World
	rsl.VerifResetCache()
	st := kit.NewMemStore()
	b, err := kit.BuildWorld(st, &w)
	if err != nil {
		return &kit.Failure{Cause: "harness", Msg: "world does not build: " + err.Error()}
	}
	rsl.VerifResetCache()
	needs, perr := policy.NewPolicyVerifier(b.Store).VerifyMergeable(context.Background(), "refs/heads/main", "refs/heads/feature")
	prediction := "not-possible"
	if perr == nil {
		prediction = "possible-no-signature-needed"
		if needs {
			prediction = "possible-signature-needed"
		}
	}
	// who is already counted: principals credited by the stored approvals
	m := &kit.Model{W: &w, Opts: kit.ModelOptions{}}
	spec := &w.Policies[1]
	// recorders: every developer key, an unknown key, nobody
	recorders := []int{-1, wgUnknownKey}
	for d := 0; d < c.NPrins; d++ {
		recorders = append(recorders, d)
	}
	n0 := len(w.Events)
	type outcome struct {
		recorder int
		form     string
		ok       bool
		err      error
		counted  bool
		modelOK  string
	}
	var outs []outcome
	for _, form := range []string{"ff", "merge"} {
		for _, r := range recorders {
			w2 := kit.World{Policies: w.Policies, Events: append(append([]kit.Event{}, w.Events...), kit.Event{Kind: "push", Ref: "refs/heads/main", Tree: c.Tree, Signer: r})}
			me := &w2.Events[n0]
			if form == "ff" {
				me.FF = "refs/heads/feature"
			} else {
				me.Merge = "refs/heads/feature"
				if r >= 0 {
					me.CSigner = r + 1
				}
			}
			fb := b.Fork()
			fb.Extend(len(w2.Events))
			if err := fb.ApplyEvent(&w2, n0); err != nil {
				return &kit.Failure{Cause: "harness", Msg: "merge does not build: " + err.Error()}
			}
			got := verifyFull(fb.Store, "refs/heads/main")
			m2 := &kit.Model{W: &w2, Opts: kit.ModelOptions{}}
			jv := m2.Judge(n0, 1)
			mo := "invalid"
			if jv.Valid {
				mo = "valid"
			}
			if jv.Unspecified != "" {
				mo = "unspecified"
			}
			// already counted = credited without the entry signature
			counted := false
			if r >= 0 {
				counted = alreadyCounted(m, &w, spec, c, r)
			}
			outs = append(outs, outcome{recorder: r, form: form, ok: got.Err == nil, err: got.Err, counted: counted, modelOK: mo})
		}
	}
	authorised := func(r int) bool {
		if r < 0 {
			return false
		}
		for _, cr := range kit.Consulted(spec, "git:refs/heads/main") {
			for _, p := range cr.Principals {
				if p.Keys[0] == r {
					return true
				}
			}
		}
		return false
	}
	describe := func() string {
		out := ""
		for _, o := range outs {
			out += fmt.Sprintf("\n   recorder=%d form=%s verifies=%v (model %s, already counted=%v) err=%v", o.recorder, o.form, o.ok, o.modelOK, o.counted, o.err)
		}
		return out
	}
	for _, o := range outs {
		if c.FileRule && o.modelOK != "unspecified" {
			// the model does not judge file rules; keep the differential relation only
		}
		switch prediction {
		case "possible-no-signature-needed":
			if !o.ok {
				return &kit.Failure{Cause: "prediction-too-optimistic", Msg: fmt.Sprintf("VerifyMergeable said the merge is possible and needs no further signature, but recorded by %d (%s) it does not verify: %v%s", o.recorder, o.form, o.err, describe())}
			}
		case "possible-signature-needed":
			want := authorised(o.recorder) && !o.counted
			if o.ok != want {
				cause := "prediction-too-optimistic"
				if o.ok {
					cause = "prediction-too-pessimistic"
				}
				return &kit.Failure{Cause: cause, Msg: fmt.Sprintf("VerifyMergeable said a signature by a not-yet-counted authorised principal is needed; recorder %d (%s; authorised=%v, already counted=%v) verifies=%v%s", o.recorder, o.form, authorised(o.recorder), o.counted, o.ok, describe())}
			}
		case "not-possible":
			if o.ok && authorised(o.recorder) && !o.counted && ruleThresholdOne(spec) && s.IsKnown("C19-threshold-one-predicted-not-mergeable") {
				// listed finding (pinned by the existing suite): with a threshold of 1
				// and nobody counted yet the prediction is "not possible" although an
				// authorised recorder's signature is all that is needed
				s.KnownHit("C19-threshold-one-predicted-not-mergeable", c)
				continue
			}
			if o.ok {
				return &kit.Failure{Cause: "prediction-too-pessimistic", Msg: fmt.Sprintf("VerifyMergeable said the merge is not possible (%v) but recorded by %d (%s) it verifies%s", perr, o.recorder, o.form, describe())}
			}
		}
	}
	nt := false
	for _, l := range c.Labels {
		if l == "threshold_ge_2" || l == "feature_touches_protected_path" {
			for _, l2 := range c.Labels {
				if l2 == "prior_approval" {
					nt = true
				}
			}
		}
	}
	s.Observe(c, nt, append(append([]string{}, c.Labels...), "prediction_"+prediction)...)
	return nil
}

// ruleThresholdOne: is some consulted rule for main met by a single signature?
func ruleThresholdOne(spec *kit.PolicySpec) bool {
	for _, cr := range kit.Consulted(spec, "git:refs/heads/main") {
		if cr.Threshold == 1 {
			return true
		}
	}
	return false
}

// alreadyCounted: is key r's principal credited by the stored approvals alone
// (authorization signature or app approval) for the change under test?
func alreadyCounted(m *kit.Model, w *kit.World, spec *kit.PolicySpec, c c19Case, r int) bool {
	var change kit.Change
	for i := len(w.Events) - 1; i >= 0; i-- {
		if w.Events[i].Kind == "approve" {
			change = w.Events[i].Items[0].Stmt
			for _, it := range w.Events[i].Items {
				switch it.Kind {
				case "auth", "auth01":
					for _, k := range it.Signers {
						if k == r {
							return true
						}
					}
				case "app":
					trusted := false
					for _, a := range spec.Apps {
						if a.Name == it.App && a.Trusted {
							trusted = true
						}
					}
					if trusted {
						for _, a := range it.Approvers {
							if a == fmt.Sprintf("gh-dev%d", r) {
								return true
							}
						}
					}
				}
			}
		}
	}
	_ = change
	return false
}

func TestC19(t *testing.T) {
	s := kit.Open(t, "C19")
	run := func(c c19Case) *kit.Failure { return runC19(t, s, c) }
	if rf := kit.Replay(t); rf != nil {
		kit.DoReplay(s, t, rf, run)
		return
	}
	s.SetRule("rapid: a branch rule of threshold 1-3 over 2-4 persons, optionally a file rule on src/*, a global threshold rule and a (trusted or untrusted) review app; a feature branch of 1-3 commits signed by various keys touching protected and unprotected paths on top of the branch's current state (or an empty branch); prior approvals for exactly the predicted change by any subset (authorization signatures, app approvals). VerifyMergeable's answer is then compared with VerifyRefFull of the merge recorded - on a snapshot - by every candidate recorder {each person, an unknown key, unsigned} as a fast-forward and as a merge commit carrying the predicted tree: 'no signature needed' => every recording verifies; 'signature needed' => verifies exactly for authorised, not-yet-counted recorders; 'not possible' => no recording verifies. Non-trivial: threshold >= 2 or a protected path touched, with >= 1 prior approval")
	kit.Campaign(s, t, "mergeable", "mergeable", s.Budget(3_000, 60_000), genC19, run)
}
