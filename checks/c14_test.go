//go:build verif

package verifchecks

import (
	"bytes"
	"encoding/hex"
	"fmt"
	"strings"
	"testing"

	kit "github.com/gittuf/gittuf/internal/verifkit"
	"github.com/gittuf/gittuf/pkg/githash"
	"github.com/gittuf/gittuf/pkg/rsl"
	"pgregory.net/rapid"
)

// ---------------------------------------------------------------------------
// C14 - RSL entry text and its parsed form determine each other
// ---------------------------------------------------------------------------

// c14Entry is the abstract entry the generator produces.
type c14Entry struct {
	Kind     string   `json:"kind"` // reference | annotation | propagation
	Ref      string   `json:"ref,omitempty"`
	Target   string   `json:"target,omitempty"`
	IDs      []string `json:"ids,omitempty"`
	Skip     bool     `json:"skip,omitempty"`
	Message  []byte   `json:"message,omitempty"`
	Upstream string   `json:"upstream,omitempty"`
	UpEntry  string   `json:"up_entry,omitempty"`
	Number   uint64   `json:"number,omitempty"`
}

// c14Text is a byte-level case: an arbitrary text handed to the parser.
type c14Text struct {
	Text []byte `json:"text"`
	How  string `json:"how"`
}

func genHex(rt *rapid.T, label string) string {
	n := 20
	if rapid.IntRange(0, 4).Draw(rt, label+"len") == 0 {
		n = 32
	}
	b := rapid.SliceOfN(rapid.Byte(), n, n).Draw(rt, label)
	return hex.EncodeToString(b)
}

// genRefName draws a name that `git check-ref-format` accepts.
func genRefName(rt *rapid.T) string {
	prefix := rapid.SampledFrom([]string{"refs/heads/", "refs/heads/", "refs/tags/", "refs/gittuf/", "refs/remotes/origin/", "refs/"}).Draw(rt, "prefix")
	ncomp := rapid.IntRange(1, 3).Draw(rt, "ncomp")
	comps := make([]string, 0, ncomp)
	for i := 0; i < ncomp; i++ {
		c := rapid.StringOfN(rapid.RuneFrom([]rune("abcXYZ019-_.+@#%=,!é世\u00a0\u2003\u0085")), 1, 8, -1).Draw(rt, "comp")
		// Git's rules: no leading '.', no "..", no trailing ".lock" or '.', no "@{"
		c = strings.ReplaceAll(c, "..", ".")
		c = strings.ReplaceAll(c, "@{", "@")
		c = strings.TrimLeft(c, ".")
		c = strings.TrimRight(c, ".")
		c = strings.TrimSuffix(c, ".lock")
		if c == "" || c == "@" {
			c = "x"
		}
		comps = append(comps, c)
	}
	return prefix + strings.Join(comps, "/")
}

func genUpstream(rt *rapid.T) string {
	return rapid.SampledFrom([]string{
		"https://example.com/org/repo", "git@github.com:org/repo.git", "ssh://git@host:2222/a/b.git",
		"/srv/git/repo with space.git", "file:///tmp/x", "http://[::1]:8080/r", "C:\\repos\\x", "a:b:c", "x",
		"https://user:pw@host/r?x=1#frag", "ref: refs/heads/evil", "number: 7",
	}).Draw(rt, "upstream")
}

func genMessage(rt *rapid.T) []byte {
	switch rapid.IntRange(0, 6).Draw(rt, "msgkind") {
	case 0:
		return nil
	case 1:
		return []byte(rapid.SampledFrom([]string{
			"-----BEGIN MESSAGE-----\nAAAA\n-----END MESSAGE-----", "-----END MESSAGE-----", "skip: true\nnumber: 9",
			"entryID: " + strings.Repeat("a", 40), "\r\n", "line1\r\nline2\r\n", " ", "\n", "\x00", "ref: refs/heads/main",
		}).Draw(rt, "hostile"))
	case 2:
		return rapid.SliceOfN(rapid.Byte(), 0, 300).Draw(rt, "bytes")
	case 3:
		return rapid.SliceOfN(rapid.Byte(), 1000, 4096).Draw(rt, "bigbytes")
	default:
		return []byte(rapid.StringN(0, 80, -1).Draw(rt, "text"))
	}
}

func genC14Entry(rt *rapid.T) c14Entry {
	e := c14Entry{}
	e.Kind = rapid.SampledFrom([]string{"reference", "annotation", "annotation", "propagation"}).Draw(rt, "kind")
	switch rapid.IntRange(0, 5).Draw(rt, "numkind") {
	case 0:
		e.Number = 0
	case 1:
		e.Number = ^uint64(0)
	case 2:
		e.Number = rapid.Uint64().Draw(rt, "num")
	default:
		e.Number = rapid.Uint64Range(1, 5000).Draw(rt, "smallnum")
	}
	switch e.Kind {
	case "reference":
		e.Ref, e.Target = genRefName(rt), genHex(rt, "target")
	case "annotation":
		n := rapid.IntRange(1, 6).Draw(rt, "nids")
		for i := 0; i < n; i++ {
			e.IDs = append(e.IDs, genHex(rt, "id"))
		}
		e.Skip = rapid.Bool().Draw(rt, "skip")
		e.Message = genMessage(rt)
	case "propagation":
		e.Ref, e.Target = genRefName(rt), genHex(rt, "target")
		e.Upstream, e.UpEntry = genUpstream(rt), genHex(rt, "upentry")
	}
	return e
}

func c14Hash(s string) githash.Hash {
	h, err := githash.NewHash(s)
	if err != nil {
		panic(err)
	}
	return h
}

func (e c14Entry) toRSL() rsl.Entry {
	switch e.Kind {
	case "reference":
		return &rsl.ReferenceEntry{RefName: e.Ref, TargetID: c14Hash(e.Target), Number: e.Number}
	case "annotation":
		ids := make([]githash.Hash, 0, len(e.IDs))
		for _, id := range e.IDs {
			ids = append(ids, c14Hash(id))
		}
		return &rsl.AnnotationEntry{RSLEntryIDs: ids, Skip: e.Skip, Message: string(e.Message), Number: e.Number}
	default:
		return &rsl.PropagationEntry{RefName: e.Ref, TargetID: c14Hash(e.Target), UpstreamRepository: e.Upstream, UpstreamEntryID: c14Hash(e.UpEntry), Number: e.Number}
	}
}

// fieldsOf flattens a parsed entry into a comparable description.
func fieldsOf(e rsl.Entry) string {
	switch v := e.(type) {
	case *rsl.ReferenceEntry:
		return fmt.Sprintf("reference|%s|%s|%d", v.RefName, v.TargetID, v.Number)
	case *rsl.AnnotationEntry:
		ids := make([]string, 0, len(v.RSLEntryIDs))
		for _, id := range v.RSLEntryIDs {
			ids = append(ids, id.String())
		}
		return fmt.Sprintf("annotation|%s|%v|%q|%d", strings.Join(ids, ","), v.Skip, v.Message, v.Number)
	case *rsl.PropagationEntry:
		return fmt.Sprintf("propagation|%s|%s|%s|%s|%d", v.RefName, v.TargetID, v.UpstreamRepository, v.UpstreamEntryID, v.Number)
	case nil:
		return "<nil>"
	}
	return fmt.Sprintf("unknown %T", e)
}

func (e c14Entry) nontrivial() bool {
	return (e.Kind == "annotation" && (len(e.Message) > 0 || len(e.IDs) >= 2)) || (e.Kind == "propagation" && strings.Contains(e.Upstream, ":"))
}

var c14ID = c14Hash(strings.Repeat("ab", 20))

// runC14Codec: canonical text -> parse == original (with arbitrary numbers).
func runC14Codec(s *kit.Session, e c14Entry) *kit.Failure {
	want := e.toRSL()
	text, err := rsl.VerifCanonicalText(want)
	if err != nil {
		return &kit.Failure{Cause: "codec-error", Msg: "canonical text failed: " + err.Error()}
	}
	got, err := rsl.ParseEntryText(c14ID, text)
	if err != nil {
		return &kit.Failure{Cause: "roundtrip-reject", Msg: fmt.Sprintf("text written for a recordable entry is rejected: %v\n%s", err, text)}
	}
	if fieldsOf(got) != fieldsOf(want) {
		return &kit.Failure{Cause: "roundtrip-mismatch", Msg: fmt.Sprintf("want %s\n got %s\ntext:\n%s", fieldsOf(want), fieldsOf(got), text)}
	}
	if !got.GetID().Equal(c14ID) {
		return &kit.Failure{Cause: "roundtrip-id", Msg: "parsed entry does not carry the given id"}
	}
	s.Observe(e, e.nontrivial(), "codec_"+e.Kind)
	return nil
}

// c14Store is a case for the write-path round trip: entries recorded in order
// on a store; annotations refer to earlier entries by index.
type c14Store struct {
	Entries []c14Entry `json:"entries"`
	Refs    [][]int    `json:"refs"` // for annotations: indices of earlier entries
	Legacy  int        `json:"legacy"`
	Signer  int        `json:"signer"` // -1 unsigned, else key index (CommitUsingSpecificKey)
}

func genC14Store(rt *rapid.T) c14Store {
	n := rapid.IntRange(1, 6).Draw(rt, "n")
	c := c14Store{Signer: rapid.IntRange(-1, 1).Draw(rt, "signer"), Legacy: rapid.IntRange(0, 2).Draw(rt, "legacy")}
	for i := 0; i < n; i++ {
		e := genC14Entry(rt)
		e.Number = 0
		var refs []int
		if e.Kind == "annotation" {
			if i == 0 {
				e = c14Entry{Kind: "reference", Ref: genRefName(rt), Target: genHex(rt, "target")}
			} else {
				k := rapid.IntRange(1, 4).Draw(rt, "nrefs")
				for j := 0; j < k; j++ {
					refs = append(refs, rapid.IntRange(0, i-1).Draw(rt, "refidx"))
				}
				e.IDs = nil
			}
		}
		c.Entries = append(c.Entries, e)
		c.Refs = append(c.Refs, refs)
	}
	return c
}

func runC14Store(s *kit.Session, c c14Store) *kit.Failure {
	rsl.VerifResetCache()
	st := kit.NewMemStore()
	var ids []githash.Hash
	var numbered uint64
	nt := false
	inLegacy := true // legacy unnumbered entries only ever form a prefix of a log
	for i, e := range c.Entries {
		var ent rsl.Entry
		if e.Kind == "annotation" {
			var refIDs []githash.Hash
			for _, j := range c.Refs[i] {
				refIDs = append(refIDs, ids[j])
			}
			ent = rsl.NewAnnotationEntry(refIDs, e.Skip, string(e.Message))
		} else {
			ent = e.toRSL()
		}
		legacy := inLegacy && i < c.Legacy
		if _, isProp := ent.(*rsl.PropagationEntry); isProp {
			legacy = false // propagation entries have no unnumbered form
		}
		if !legacy {
			inLegacy = false
		}
		var err error
		switch v := ent.(type) {
		case *rsl.ReferenceEntry:
			switch {
			case legacy:
				err = v.CommitWithoutNumber(st)
			case c.Signer >= 0:
				err = v.CommitUsingSpecificKey(st, kit.Key(c.Signer).PEM)
			default:
				err = v.Commit(st, false)
			}
		case *rsl.AnnotationEntry:
			switch {
			case legacy:
				err = v.CommitWithoutNumber(st)
			case c.Signer >= 0:
				err = v.CommitUsingSpecificKey(st, kit.Key(c.Signer).PEM)
			default:
				err = v.Commit(st, false)
			}
		case *rsl.PropagationEntry:
			if c.Signer >= 0 {
				err = v.CommitUsingSpecificKey(st, kit.Key(c.Signer).PEM)
			} else {
				err = v.Commit(st, false)
			}
		}
		if err != nil {
			return &kit.Failure{Cause: "write-error", Msg: fmt.Sprintf("entry %d (%s) could not be recorded: %v", i, e.Kind, err)}
		}
		if !legacy {
			numbered++
		}
		tip, err := st.GetReference(rsl.Ref)
		if err != nil {
			return &kit.Failure{Cause: "write-error", Msg: err.Error()}
		}
		ids = append(ids, tip)
		rsl.VerifResetCache()
		got, err := rsl.GetEntry(st, tip)
		if err != nil {
			return &kit.Failure{Cause: "roundtrip-reject", Msg: fmt.Sprintf("recorded entry %d cannot be read back: %v", i, err)}
		}
		wantNum := numbered
		if legacy {
			wantNum = 0
		}
		var want string
		switch v := ent.(type) {
		case *rsl.ReferenceEntry:
			want = fmt.Sprintf("reference|%s|%s|%d", v.RefName, v.TargetID, wantNum)
		case *rsl.AnnotationEntry:
			x := *v
			x.Number = wantNum
			want = fieldsOf(&x)
			nt = nt || len(v.Message) > 0 || len(v.RSLEntryIDs) >= 2
		case *rsl.PropagationEntry:
			want = fmt.Sprintf("propagation|%s|%s|%s|%s|%d", v.RefName, v.TargetID, v.UpstreamRepository, v.UpstreamEntryID, wantNum)
			nt = nt || strings.Contains(v.UpstreamRepository, ":")
		}
		if fieldsOf(got) != want {
			return &kit.Failure{Cause: "roundtrip-mismatch", Msg: fmt.Sprintf("entry %d: want %s\n got %s", i, want, fieldsOf(got))}
		}
		if !got.GetID().Equal(tip) {
			return &kit.Failure{Cause: "roundtrip-id", Msg: "read-back entry has another id"}
		}
	}
	s.Observe(c, nt, "store_roundtrip")
	return nil
}

// ---- arbitrary byte strings ---------------------------------------------------

// independentKeys is the harness's own reader of the documented grammar: header
// line, blank line, then "key: value" lines (an annotation's message block, if
// any, ends the field list). It returns the sequence of (key,value) for the
// security relevant keys.
func independentKeys(text string) (kind string, kv [][2]string, ok bool) {
	lines := strings.Split(text, "\n")
	if len(lines) < 2 {
		return "", nil, false
	}
	switch lines[0] {
	case rsl.ReferenceEntryHeader:
		kind = "reference"
	case rsl.AnnotationEntryHeader:
		kind = "annotation"
	case rsl.PropagationEntryHeader:
		kind = "propagation"
	default:
		return "", nil, false
	}
	blanks := " \t\r\n\v\f" // the grammar's blanks are ASCII; Unicode spaces are data (legal in Git ref names)
	for _, line := range lines[2:] {
		line = strings.Trim(line, blanks)
		if kind == "annotation" && line == rsl.BeginMessage {
			break
		}
		k, v, found := strings.Cut(line, ":")
		if !found {
			continue
		}
		k, v = strings.Trim(k, blanks), strings.Trim(v, blanks)
		switch k {
		case rsl.RefKey, rsl.TargetIDKey, rsl.EntryIDKey, rsl.SkipKey, rsl.UpstreamRepositoryKey, rsl.UpstreamEntryIDKey, rsl.NumberKey:
			kv = append(kv, [2]string{k, v})
		}
	}
	return kind, kv, true
}

var c14Order = map[string][]string{
	"reference":   {rsl.RefKey, rsl.TargetIDKey, rsl.NumberKey},
	"annotation":  {rsl.EntryIDKey, rsl.SkipKey, rsl.NumberKey},
	"propagation": {rsl.RefKey, rsl.TargetIDKey, rsl.UpstreamRepositoryKey, rsl.UpstreamEntryIDKey, rsl.NumberKey},
}

// mustReject reports why a text is ambiguous or incomplete by the documented
// grammar ("" if it is not).
func mustReject(kind string, kv [][2]string) string {
	order := c14Order[kind]
	pos := map[string]int{}
	for i, k := range order {
		pos[k] = i
	}
	seen := map[string]bool{}
	last := -1
	for _, p := range kv {
		k := p[0]
		i, known := pos[k]
		if !known {
			continue // key of another entry kind: ignored like any unknown key
		}
		if seen[k] && !(kind == "annotation" && k == rsl.EntryIDKey) {
			return "repeated key " + k
		}
		if i < last {
			return "key " + k + " out of order"
		}
		seen[k] = true
		last = i
	}
	for _, k := range order {
		if k == rsl.NumberKey {
			continue
		}
		if !seen[k] {
			return "missing key " + k
		}
	}
	return ""
}

func runC14Text(s *kit.Session, c c14Text) *kit.Failure {
	text := string(c.Text)
	e1, err := rsl.ParseEntryText(c14ID, text)
	kind, kv, wellHeaded := independentKeys(text)
	if err != nil {
		if e1 != nil {
			return &kit.Failure{Cause: "error-with-entry", Msg: fmt.Sprintf("parser returned both an entry and an error for %q", text)}
		}
		s.Observe(c, true, "text_rejected", "how_"+c.How)
		return nil
	}
	if e1 == nil {
		return &kit.Failure{Cause: "nil-entry", Msg: fmt.Sprintf("parser returned nil entry and nil error for %q", text)}
	}
	if wellHeaded {
		if why := mustReject(kind, kv); why != "" {
			return &kit.Failure{Cause: "ambiguous-accepted", Msg: fmt.Sprintf("text accepted although %s: %q -> %s", why, text, fieldsOf(e1))}
		}
	} else {
		return &kit.Failure{Cause: "bad-header-accepted", Msg: fmt.Sprintf("text without a valid header/blank line accepted: %q", text)}
	}
	canon, err := rsl.VerifCanonicalText(e1)
	if err != nil {
		return &kit.Failure{Cause: "canonical-error", Msg: fmt.Sprintf("accepted entry has no canonical text: %v (%q)", err, text)}
	}
	e2, err := rsl.ParseEntryText(c14ID, canon)
	if err != nil {
		return &kit.Failure{Cause: "not-idempotent", Msg: fmt.Sprintf("canonical text of an accepted entry is rejected: %v\ninput %q\ncanonical %q", err, text, canon)}
	}
	if fieldsOf(e1) != fieldsOf(e2) {
		return &kit.Failure{Cause: "not-idempotent", Msg: fmt.Sprintf("parse(canonical(parse(x))) differs:\ninput %q\nfirst  %s\nsecond %s", text, fieldsOf(e1), fieldsOf(e2))}
	}
	s.Observe(c, true, "text_accepted", "how_"+c.How)
	return nil
}

// genC14Text: structured mutations of valid texts plus raw bytes.
func genC14Text(rt *rapid.T) c14Text {
	if rapid.IntRange(0, 9).Draw(rt, "raw") == 0 {
		return c14Text{Text: rapid.SliceOfN(rapid.Byte(), 0, 200).Draw(rt, "rawbytes"), How: "raw"}
	}
	e := genC14Entry(rt)
	text, err := rsl.VerifCanonicalText(e.toRSL())
	if err != nil {
		panic(err)
	}
	lines := strings.Split(text, "\n")
	how := rapid.SampledFrom([]string{"swap", "dup", "dupchanged", "delete", "case", "blank", "unknown", "crlf", "zeros", "pem2", "spaces", "foreign", "bytes", "none", "headerjunk", "tabs", "colon"}).Draw(rt, "how")
	idx := func(label string, lo int) int {
		if len(lines) <= lo {
			return len(lines) - 1
		}
		return rapid.IntRange(lo, len(lines)-1).Draw(rt, label)
	}
	switch how {
	case "swap":
		i, j := idx("i", 2), idx("j", 2)
		lines[i], lines[j] = lines[j], lines[i]
	case "dup":
		i := idx("i", 2)
		at := idx("at", 2)
		lines = append(lines[:at], append([]string{lines[i]}, lines[at:]...)...)
	case "dupchanged":
		i := idx("i", 2)
		k, _, _ := strings.Cut(lines[i], ":")
		var v string
		switch strings.TrimSpace(k) {
		case rsl.RefKey:
			v = genRefName(rt)
		case rsl.SkipKey:
			v = rapid.SampledFrom([]string{"true", "false"}).Draw(rt, "skipv")
		case rsl.NumberKey:
			v = fmt.Sprint(rapid.Uint64Range(0, 99).Draw(rt, "numv"))
		case rsl.UpstreamRepositoryKey:
			v = genUpstream(rt)
		default:
			v = genHex(rt, "hexv")
		}
		at := idx("at", 2)
		lines = append(lines[:at], append([]string{k + ": " + v}, lines[at:]...)...)
	case "delete":
		i := idx("i", 0)
		lines = append(lines[:i], lines[i+1:]...)
	case "case":
		i := idx("i", 0)
		if rapid.Bool().Draw(rt, "upper") {
			lines[i] = strings.ToUpper(lines[i])
		} else {
			lines[i] = strings.ToLower(lines[i])
		}
	case "blank":
		at := idx("at", 0)
		lines = append(lines[:at], append([]string{rapid.SampledFrom([]string{"", " ", "\t"}).Draw(rt, "blankline")}, lines[at:]...)...)
	case "unknown":
		at := idx("at", 2)
		lines = append(lines[:at], append([]string{rapid.SampledFrom([]string{"foo: bar", "Ref: refs/heads/x", "ref : refs/heads/y", "targetid: " + strings.Repeat("0", 40), "x:", ":", ": v", "number : 3"}).Draw(rt, "unk")}, lines[at:]...)...)
	case "crlf":
		for i := range lines {
			if rapid.Bool().Draw(rt, "cr") {
				lines[i] += "\r"
			}
		}
	case "zeros":
		for i := range lines {
			if strings.HasPrefix(lines[i], rsl.NumberKey+":") {
				lines[i] = strings.Replace(lines[i], ": ", ": "+rapid.SampledFrom([]string{"0", "00", "+", "-", " ", "0x"}).Draw(rt, "z"), 1)
			}
		}
	case "pem2":
		blk := "-----BEGIN MESSAGE-----\nQUJD\n-----END MESSAGE-----"
		if rapid.Bool().Draw(rt, "front") {
			at := idx("at", 1)
			lines = append(lines[:at], append(strings.Split(blk, "\n"), lines[at:]...)...)
		} else {
			lines = append(lines, strings.Split(blk, "\n")...)
		}
	case "spaces":
		i := idx("i", 0)
		lines[i] = rapid.SampledFrom([]string{" ", "\t", "  "}).Draw(rt, "lead") + lines[i] + rapid.SampledFrom([]string{"", " ", "\t"}).Draw(rt, "trail")
	case "foreign":
		at := idx("at", 2)
		lines = append(lines[:at], append([]string{rapid.SampledFrom([]string{
			"upstreamRepository: https://evil", "upstreamEntryID: " + strings.Repeat("c", 40), "entryID: " + strings.Repeat("d", 40), "skip: true", "ref: refs/heads/other", "targetID: " + strings.Repeat("e", 40),
		}).Draw(rt, "foreignline")}, lines[at:]...)...)
	case "bytes":
		b := []byte(strings.Join(lines, "\n"))
		n := rapid.IntRange(1, 4).Draw(rt, "nmut")
		for k := 0; k < n && len(b) > 0; k++ {
			p := rapid.IntRange(0, len(b)-1).Draw(rt, "pos")
			switch rapid.IntRange(0, 2).Draw(rt, "mut") {
			case 0:
				b[p] = rapid.Byte().Draw(rt, "byte")
			case 1:
				b = append(b[:p], b[p+1:]...)
			default:
				b = append(b[:p], append([]byte{rapid.Byte().Draw(rt, "ins")}, b[p:]...)...)
			}
		}
		return c14Text{Text: b, How: how}
	case "headerjunk":
		lines[0] += rapid.SampledFrom([]string{" ", "x", "\r", " v2"}).Draw(rt, "junk")
	case "tabs":
		for i := range lines {
			lines[i] = strings.Replace(lines[i], ": ", rapid.SampledFrom([]string{":", ":\t", " : ", ":  "}).Draw(rt, "sep"), 1)
		}
	case "colon":
		i := idx("i", 2)
		lines[i] = strings.Replace(lines[i], ":", "", 1)
	}
	return c14Text{Text: []byte(strings.Join(lines, "\n")), How: how}
}

func TestC14(t *testing.T) {
	s := kit.Open(t, "C14")
	codec := func(e c14Entry) *kit.Failure { return runC14Codec(s, e) }
	store := func(c c14Store) *kit.Failure { return runC14Store(s, c) }
	text := func(c c14Text) *kit.Failure { return runC14Text(s, c) }
	if rf := kit.Replay(t); rf != nil {
		switch rf.Kind {
		case "codec":
			kit.DoReplay(s, t, rf, codec)
		case "store":
			kit.DoReplay(s, t, rf, store)
		case "text":
			kit.DoReplay(s, t, rf, text)
		}
		return
	}
	s.SetRule("rapid: (a) entries of the three kinds (valid Git ref names incl. non-ASCII, 40/64-hex ids, 1-6 referenced ids, arbitrary message bytes, URL-like upstream locations, numbers 0..2^64-1) -> canonical text -> ParseEntryText; (b) the same entries recorded through Commit/CommitUsingSpecificKey/CommitWithoutNumber on a Storer and read back with GetEntry; (c) structured mutations of valid texts (17 operators) and raw bytes -> reject, or idempotent and unambiguous per an independent reader of the grammar. Non-trivial: annotation with message or >=2 ids, propagation entry with ':' in its location, any mutated/raw text; distinct by SHA-256 of the case")
	kit.Campaign(s, t, "codec", "codec", s.Budget(200_000, 4_000_000), genC14Entry, codec)
	kit.Campaign(s, t, "store", "store", s.Budget(40_000, 600_000), genC14Store, store)
	kit.Campaign(s, t, "text", "text", s.Budget(400_000, 8_000_000), genC14Text, text)
	_ = bytes.Equal
}
