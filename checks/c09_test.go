//go:build verif

package verifchecks

import (
	"context"
	"fmt"
	"sort"
	"testing"

	"github.com/gittuf/gittuf/internal/policy"
	kit "github.com/gittuf/gittuf/internal/verifkit"
	"github.com/gittuf/gittuf/pkg/rsl"
	"pgregory.net/rapid"
)

// ---------------------------------------------------------------------------
// C09 - Approvals count only for the exact change named, once per principal
// ---------------------------------------------------------------------------

type c09Case struct {
	World   kit.World `json:"world"`
	PushEvt int       `json:"push_evt"` // the change under test
	// TrailEvt: a later push to the same ref (0 = none), either properly approved
	// or "approved" by a byte-identical copy of the first change's authorization
	// filed under the later change's path (replay)
	TrailEvt int `json:"trail_evt,omitempty"`
	Labels  []string  `json:"labels"`
}

const c09App = "github-app"

func c09Policy(threshold int, appTrusted, hasApp bool, nprins int) kit.PolicySpec {
	root := keyPrin(wgRootKey)
	f := &kit.FileSpec{Signers: []int{wgRootKey}}
	for d := 0; d < nprins; d++ {
		f.Principals = append(f.Principals, kit.PrincipalSpec{Person: fmt.Sprintf("dev%d", d), Keys: []int{d}, Identities: map[string]string{c09App: fmt.Sprintf("gh-dev%d", d)}})
	}
	f.Rules = []kit.RuleSpec{{Name: "protect-main", Patterns: []string{"git:refs/heads/main"}, Principals: indices(nprins), Threshold: threshold}}
	spec := kit.PolicySpec{RootPrincipals: []kit.PrincipalSpec{root}, RootThreshold: 1, TargetsKeys: []kit.PrincipalSpec{root}, TargetsThreshold: 1, RootSigners: []int{wgRootKey}, Targets: f}
	if hasApp {
		spec.Apps = []kit.AppSpec{{Name: c09App, Key: wgAppKey, Trusted: appTrusted}}
	}
	return spec
}

func genC09(rt *rapid.T) c09Case {
	c := c09Case{}
	labels := map[string]bool{}
	nprins := rapid.IntRange(2, 4).Draw(rt, "nprins")
	thr := rapid.IntRange(2, min(3, nprins)).Draw(rt, "threshold")
	hasApp := rapid.IntRange(0, 3).Draw(rt, "hasapp") != 0
	appTrusted := rapid.IntRange(0, 4).Draw(rt, "apptrusted") != 0
	w := &c.World
	w.Policies = []kit.PolicySpec{c09Policy(1, appTrusted, hasApp, nprins), c09Policy(thr, appTrusted, hasApp, nprins)}
	w.Events = append(w.Events, kit.Event{Kind: "policy", Policy: 0, Signer: -1})
	withBase := rapid.Bool().Draw(rt, "withbase")
	baseEvt := -1
	if withBase {
		w.Events = append(w.Events, kit.Event{Kind: "push", Ref: "refs/heads/main", Tree: 0, Signer: 0})
		baseEvt = len(w.Events) - 1
	}
	w.Events = append(w.Events, kit.Event{Kind: "policy", Policy: 1, Signer: -1})
	tree := rapid.IntRange(1, 3).Draw(rt, "tree")
	w.Events = append(w.Events, kit.Event{Kind: "push", Ref: "refs/heads/feature", Base: "refs/heads/main", Tree: tree, Signer: -1})
	featEvt := len(w.Events) - 1
	change := kit.Change{Ref: "refs/heads/main", From: baseEvt, To: tree}

	genItems := func(slot string) []kit.AttItem {
		n := rapid.IntRange(0, 4).Draw(rt, "nitems"+slot)
		var items []kit.AttItem
		for i := 0; i < n; i++ {
			it := kit.AttItem{}
			it.Kind = rapid.SampledFrom([]string{"auth", "auth", "auth01", "app", "app"}).Draw(rt, "kind")
			it.Stmt = change
			variant := rapid.SampledFrom([]string{"exact", "exact", "exact", "other-ref", "other-from", "other-to"}).Draw(rt, "variant")
			switch variant {
			case "other-ref":
				it.Stmt.Ref = "refs/heads/release"
			case "other-from":
				if baseEvt >= 0 {
					it.Stmt.From = rapid.SampledFrom([]int{-1, featEvt}).Draw(rt, "ofrom")
				} else {
					it.Stmt.From = featEvt
				}
			case "other-to":
				it.Stmt.To = tree + 1
			}
			it.Path = it.Stmt
			if variant != "exact" {
				labels["statement_for_another_change"] = true
				if rapid.Bool().Draw(rt, "misfile") {
					it.Path = change
					labels["misfiled_under_this_change"] = true
				}
			}
			if it.Kind == "app" {
				it.App = c09App
				it.Signers = []int{rapid.SampledFrom([]int{wgAppKey, wgAppKey, wgAppKey, wgUnknownKey}).Draw(rt, "appsigner")}
				k := rapid.IntRange(1, 3).Draw(rt, "napprovers")
				for j := 0; j < k; j++ {
					it.Approvers = append(it.Approvers, rapid.SampledFrom([]string{"gh-dev0", "gh-dev1", "gh-dev2", "gh-dev3", "gh-stranger"}).Draw(rt, "approver"))
				}
				it.Approvers = uniqStrs(it.Approvers)
				if rapid.IntRange(0, 3).Draw(rt, "hasdismissed") == 0 {
					d := rapid.SampledFrom([]string{"gh-dev0", "gh-dev1", "gh-dev2", "gh-dev3"}).Draw(rt, "dismissed")
					in := false
					for _, a := range it.Approvers {
						if a == d {
							in = true
						}
					}
					if !in {
						it.Dismissed = []string{d}
						labels["dismissed_approver"] = true
					}
				}
				labels["app_approval"] = true
			} else {
				k := rapid.IntRange(1, 3).Draw(rt, "nsigners")
				for j := 0; j < k; j++ {
					it.Signers = append(it.Signers, rapid.SampledFrom([]int{0, 1, 2, 3, wgUnknownKey}).Draw(rt, "signer"))
				}
				it.Signers = uniqInts(it.Signers)
			}
			items = append(items, it)
		}
		return items
	}
	trailing := rapid.SampledFrom([]string{"none", "none", "valid", "replay"}).Draw(rt, "trailing")
	replayItem := kit.AttItem{Kind: rapid.SampledFrom([]string{"auth", "auth01"}).Draw(rt, "replaykind"), Stmt: change, Path: change}
	for d := 1; d < thr; d++ {
		replayItem.Signers = append(replayItem.Signers, d)
	}
	before := genItems("before")
	if trailing == "replay" {
		// the first change is properly approved: dev0 pushes, devs 1..thr-1 authorize exactly it
		before = []kit.AttItem{replayItem}
	}
	if len(before) > 0 {
		// one approve event per item, or all at once
		if rapid.Bool().Draw(rt, "split") {
			for _, it := range before {
				w.Events = append(w.Events, kit.Event{Kind: "approve", Signer: -1, Items: []kit.AttItem{it}})
			}
		} else {
			w.Events = append(w.Events, kit.Event{Kind: "approve", Signer: -1, Items: before})
		}
	}
	signer := rapid.SampledFrom([]int{0, 0, 1, 2, 3, wgUnknownKey, -1}).Draw(rt, "pushsigner")
	if trailing == "replay" {
		signer = 0
	}
	w.Events = append(w.Events, kit.Event{Kind: "push", Ref: "refs/heads/main", Tree: tree, Signer: signer})
	c.PushEvt = len(w.Events) - 1
	after := genItems("after")
	if len(after) > 0 {
		w.Events = append(w.Events, kit.Event{Kind: "approve", Signer: -1, Items: after})
		labels["attestation_after_entry"] = true
	}
	if trailing != "none" {
		tree2 := rapid.IntRange(1, 3).Draw(rt, "tree2")
		change2 := kit.Change{Ref: "refs/heads/main", From: c.PushEvt, To: tree2}
		switch trailing {
		case "valid":
			it := kit.AttItem{Kind: "auth", Stmt: change2, Path: change2}
			for d := 1; d < thr; d++ {
				it.Signers = append(it.Signers, d)
			}
			w.Events = append(w.Events, kit.Event{Kind: "approve", Signer: -1, Items: []kit.AttItem{it}})
			labels["later_entry_for_the_ref_properly_approved"] = true
		case "replay":
			it := replayItem
			it.Path = change2 // the very same signed statement, now filed under the later change
			w.Events = append(w.Events, kit.Event{Kind: "approve", Signer: -1, Items: []kit.AttItem{it}})
			labels["earlier_authorization_replayed_for_later_change"] = true
			labels["misfiled_under_this_change"] = true
		}
		w.Events = append(w.Events, kit.Event{Kind: "push", Ref: "refs/heads/main", Tree: tree2, Signer: 0})
		c.TrailEvt = len(w.Events) - 1
	}
	w.Normalise()
	c.Labels = sortedKeys(labels)
	return c
}

func uniqStrs(xs []string) []string {
	sort.Strings(xs)
	return uniq(xs)
}

func runC09(t *testing.T, s *kit.Session, c c09Case) *kit.Failure {
	w := c.World
	m := &kit.Model{W: &w, Opts: kit.ModelOptions{}}
	pol := 1
	jv := m.Judge(c.PushEvt, pol)
	if c.TrailEvt > 0 {
		// full verification passes only if both changes are valid
		jt := m.Judge(c.TrailEvt, pol)
		if jv.Valid && !jt.Valid {
			jv = jt
			jv.Why = fmt.Sprintf("later push (event %d): %s", c.TrailEvt, jt.Why)
		} else if jv.Valid && jt.Unspecified != "" {
			jv.Unspecified = jt.Unspecified
		}
	}
	check := func(b *kit.Built) *kit.Failure {
		got := verifyFull(b.Store, "refs/heads/main")
		// safety (always): acceptance implies enough principals with a credit
		// whose signed statement names exactly this change
		if got.Err == nil && !jv.Valid {
			return &kit.Failure{Cause: "approval-miscounted", Msg: fmt.Sprintf("push (event %d) accepted although fewer than the threshold of distinct trusted principals signed or approved exactly this change: %s", c.PushEvt, jv.Why)}
		}
		// exactness where the model is definite
		if got.Err != nil && jv.Valid && jv.Unspecified == "" {
			// the base push (if any) is always valid, so a failure is about the change under test
			return &kit.Failure{Cause: "valid-approvals-rejected", Msg: fmt.Sprintf("push (event %d) has enough matching credit but verification failed: %v", c.PushEvt, got.Err)}
		}
		// latest-only must agree with full here (single change under the latest policy)
		rsl.VerifResetCache()
		_, lerr := policy.NewPolicyVerifier(b.Store).VerifyRef(context.Background(), "refs/heads/main")
		if c.TrailEvt == 0 && (lerr == nil) != (got.Err == nil) {
			return &kit.Failure{Cause: "modes-disagree", Msg: fmt.Sprintf("full verification err=%v but latest-only err=%v", got.Err, lerr)}
		}
		return nil
	}
	rsl.VerifResetCache()
	st := kit.NewMemStore()
	b, err := kit.BuildWorld(st, &w)
	if err != nil {
		return &kit.Failure{Cause: "harness", Msg: "world does not build: " + err.Error()}
	}
	if f := confirmOnGit(t, &w, check(b), check); f != nil {
		return f
	}
	// non-trivial: a mis-filed or mismatching statement, one principal with two
	// sources of credit, or an attestation recorded after the entry
	nt := false
	for _, l := range c.Labels {
		if l == "statement_for_another_change" || l == "misfiled_under_this_change" || l == "attestation_after_entry" {
			nt = true
		}
	}
	// two sources of credit for one principal
	ch := m.ChangeOf(c.PushEvt)
	sources := map[int]int{}
	if e := w.Events[c.PushEvt]; e.Signer >= 0 && e.Signer <= 3 {
		sources[e.Signer]++
	}
	for i := 0; i < c.PushEvt; i++ {
		if w.Events[i].Kind != "approve" {
			continue
		}
		for _, it := range w.Events[i].Items {
			if it.Stmt != ch || it.Path != ch {
				continue
			}
			if it.Kind == "app" {
				for _, a := range it.Approvers {
					for d := 0; d < 4; d++ {
						if a == fmt.Sprintf("gh-dev%d", d) {
							sources[d]++
						}
					}
				}
			} else {
				for _, k := range it.Signers {
					if k <= 3 {
						sources[k]++
					}
				}
			}
		}
	}
	labels := append([]string{}, c.Labels...)
	for _, n := range sources {
		if n >= 2 {
			nt = true
			labels = append(labels, "principal_with_two_credit_sources")
			break
		}
	}
	if jv.Valid {
		labels = append(labels, "model_valid")
	} else {
		labels = append(labels, "model_invalid")
	}
	if jv.Unspecified != "" {
		labels = append(labels, "unspecified")
	}
	s.Observe(c, nt, uniqStrs(labels)...)
	return nil
}

func TestC09(t *testing.T) {
	s := kit.Open(t, "C09")
	run := func(c c09Case) *kit.Failure { return runC09(t, s, c) }
	if rf := kit.Replay(t); rf != nil {
		kit.DoReplay(s, t, rf, run)
		return
	}
	s.SetRule("rapid: a rule for refs/heads/main over 2-4 persons (each with an identity for a code-review app) with threshold 2-3, optionally a trusted / untrusted app; a change (main, zero or a base commit, tree T); an attestations tree written with raw trees (no setter validation) holding 0-4 items before and 0-4 after the push: authorizations (v0.2 / v0.1 predicate) and app approvals whose signed statement names exactly this change or another ref / prior state / tree, filed under the statement's own path or mis-filed under this change's path, signed by any subset of trusted and untrusted keys (app approvals by the app key or a foreign key), approvers mapping to trusted persons or strangers, dismissed approvers; the push signed by a trusted, unknown or no key; in half of the cases a later push to the same ref follows, properly approved or 'approved' by a byte-identical copy of the first change's authorization filed under the later change's path (replay). Oracle: credit model; acceptance always implies >= threshold distinct principals with matching-statement credit, and definite cases must be accepted. Non-trivial: a mismatching or mis-filed statement, a principal with two sources of credit, or an attestation recorded after the entry")
	kit.Campaign(s, t, "approvals", "approvals", s.Budget(10_000, 300_000), genC09, run)
}
