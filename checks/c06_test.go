//go:build verif

package verifchecks

import (
	"fmt"
	"sort"
	"strings"
	"testing"
	"time"

	"github.com/gittuf/gittuf/internal/common/set"
	"github.com/gittuf/gittuf/internal/policy"
	"github.com/gittuf/gittuf/internal/signerverifier/dsse"
	sslibdsse "github.com/gittuf/gittuf/internal/third_party/go-securesystemslib/dsse"
	"github.com/gittuf/gittuf/internal/tuf"
	tufv01 "github.com/gittuf/gittuf/internal/tuf/v01"
	tufv02 "github.com/gittuf/gittuf/internal/tuf/v02"
	kit "github.com/gittuf/gittuf/internal/verifkit"
	"pgregory.net/rapid"
)

// ---------------------------------------------------------------------------
// C06 - Rules consulted for a path are exactly those of the documented walk
// ---------------------------------------------------------------------------

type c06Prin struct {
	ID   string `json:"id"`   // "" => bare key, id is the key id
	Keys []int  `json:"keys"` // key indices
}

type c06Rule struct {
	Name      string   `json:"name"`
	Patterns  []string `json:"patterns"`
	Term      bool     `json:"term,omitempty"`
	Prins     []int    `json:"prins"` // indices into the file's principals
	Threshold int      `json:"threshold"`
}

type c06File struct {
	Name  string    `json:"name"` // "targets" for the primary file
	V01   bool      `json:"v01,omitempty"`
	Prins []c06Prin `json:"prins"`
	Rules []c06Rule `json:"rules"`
}

type c06Case struct {
	Files []c06File `json:"files"`
	Path  string    `json:"path"`
}

var c06Patterns = []string{"git:refs/heads/main", "git:refs/heads/*", "git:*", "file:src/a", "file:src/*", "file:*", "*", "git:refs/tags/*", "file:docs/x"}
var c06Paths = []string{"git:refs/heads/main", "git:refs/heads/dev", "git:refs/tags/v1", "file:src/a", "file:src/b/c", "file:docs/x", "file:README", "other:zzz"}

// c06Match models fnmatch for the three pattern forms the generator emits.
func c06Match(pattern, path string) bool {
	if strings.HasSuffix(pattern, "*") {
		return strings.HasPrefix(path, strings.TrimSuffix(pattern, "*"))
	}
	return pattern == path
}

func (r c06Rule) matches(path string) bool {
	for _, p := range r.Patterns {
		if c06Match(p, path) {
			return true
		}
	}
	return false
}

func (p c06Prin) pid() string {
	if p.ID != "" {
		return p.ID
	}
	return kit.Key(p.Keys[0]).KeyID
}

func genC06(rt *rapid.T) c06Case {
	nfiles := rapid.IntRange(1, 4).Draw(rt, "nfiles")
	fileNames := []string{"targets", "f1", "f2", "f3"}[:nfiles]
	shape := rapid.SampledFrom([]string{"unique", "unique", "unique", "dupes"}).Draw(rt, "shape")
	plain := []string{"r1", "r2", "r3", "r4", "r5", "r6", "r7", "r8", "r9", "r10", "r11", "r12"}
	usedNames := map[string]bool{}
	c := c06Case{Path: rapid.SampledFrom(c06Paths).Draw(rt, "path")}
	for fi := 0; fi < nfiles; fi++ {
		f := c06File{Name: fileNames[fi], V01: rapid.IntRange(0, 3).Draw(rt, "v01") == 0}
		np := rapid.IntRange(1, 3).Draw(rt, "nprins")
		for pi := 0; pi < np; pi++ {
			p := c06Prin{Keys: []int{rapid.IntRange(0, 5).Draw(rt, "key")}}
			if !f.V01 && rapid.IntRange(0, 2).Draw(rt, "person") == 0 {
				p.ID = rapid.SampledFrom([]string{"alice", "bob", "carol"}).Draw(rt, "pid")
				if rapid.Bool().Draw(rt, "twokeys") {
					p.Keys = append(p.Keys, rapid.IntRange(0, 5).Draw(rt, "key2"))
				}
			}
			dup := false
			for _, q := range f.Prins {
				if q.pid() == p.pid() {
					dup = true
				}
			}
			if !dup {
				f.Prins = append(f.Prins, p)
			}
		}
		nr := rapid.IntRange(0, 3).Draw(rt, "nrules")
		for ri := 0; ri < nr; ri++ {
			var name string
			cands := append([]string{}, fileNames[1:]...)
			cands = append(cands, plain...)
			for try := 0; try < 20; try++ {
				name = rapid.SampledFrom(cands).Draw(rt, "rname")
				if shape == "dupes" || !usedNames[name] {
					break
				}
				name = ""
			}
			if name == "" {
				continue
			}
			usedNames[name] = true
			r := c06Rule{Name: name, Term: rapid.Bool().Draw(rt, "term")}
			k := rapid.IntRange(1, 2).Draw(rt, "npat")
			for j := 0; j < k; j++ {
				r.Patterns = append(r.Patterns, rapid.SampledFrom(c06Patterns).Draw(rt, "pat"))
			}
			m := rapid.IntRange(1, len(f.Prins)).Draw(rt, "nrp")
			perm := rapid.Permutation(indices(len(f.Prins))).Draw(rt, "perm")
			r.Prins = append(r.Prins, perm[:m]...)
			sort.Ints(r.Prins)
			r.Threshold = rapid.IntRange(1, m).Draw(rt, "thr")
			f.Rules = append(f.Rules, r)
		}
		c.Files = append(c.Files, f)
	}
	return c
}

func indices(n int) []int {
	out := make([]int, n)
	for i := range out {
		out[i] = i
	}
	return out
}

func (f c06File) envelope() *sslibdsse.Envelope {
	var md any
	if f.V01 {
		t := tufv01.NewTargetsMetadata()
		t.Delegations = &tufv01.Delegations{Keys: map[string]*tufv01.Key{}}
		for _, p := range f.Prins {
			t.Delegations.Keys[p.pid()] = kit.Key(p.Keys[0]).V01()
		}
		for _, r := range f.Rules {
			ids := []string{}
			for _, i := range r.Prins {
				ids = append(ids, f.Prins[i].pid())
			}
			t.Delegations.Roles = append(t.Delegations.Roles, &tufv01.Delegation{Name: r.Name, Paths: r.Patterns, Terminating: r.Term, Role: tufv01.Role{KeyIDs: set.NewSetFromItems(ids...), Threshold: r.Threshold}})
		}
		t.Delegations.Roles = append(t.Delegations.Roles, tufv01.AllowRule())
		md = t
	} else {
		t := tufv02.NewTargetsMetadata()
		t.Delegations = &tufv02.Delegations{Principals: map[string]tuf.Principal{}}
		for _, p := range f.Prins {
			if p.ID != "" {
				ks := []*kit.TestKey{}
				for _, k := range p.Keys {
					ks = append(ks, kit.Key(k))
				}
				t.Delegations.Principals[p.ID] = kit.Person(p.ID, nil, ks...)
			} else {
				t.Delegations.Principals[p.pid()] = kit.Key(p.Keys[0]).V02()
			}
		}
		for _, r := range f.Rules {
			ids := []string{}
			for _, i := range r.Prins {
				ids = append(ids, f.Prins[i].pid())
			}
			t.Delegations.Roles = append(t.Delegations.Roles, &tufv02.Delegation{Name: r.Name, Paths: r.Patterns, Terminating: r.Term, Role: tufv02.Role{PrincipalIDs: set.NewSetFromItems(ids...), Threshold: r.Threshold}})
		}
		t.Delegations.Roles = append(t.Delegations.Roles, tufv02.AllowRule())
		md = t
	}
	env, err := dsse.CreateEnvelope(md)
	if err != nil {
		panic(err)
	}
	return env
}

// c06Consulted is one expected verifier: rule name, threshold and, per
// principal id, the sorted key ids the rule's own file defines.
type c06Consulted struct {
	Name      string
	Threshold int
	Prins     string
}

func (f c06File) describe(r c06Rule) c06Consulted {
	var ps []string
	for _, i := range r.Prins {
		p := f.Prins[i]
		var ks []string
		for _, k := range p.Keys {
			if f.V01 || p.ID == "" {
				ks = []string{kit.Key(p.Keys[0]).KeyID}
				break
			}
			ks = append(ks, kit.Key(k).KeyID)
		}
		sort.Strings(ks)
		ks = uniq(ks)
		ps = append(ps, p.pid()+"="+strings.Join(ks, "+"))
	}
	sort.Strings(ps)
	return c06Consulted{Name: r.Name, Threshold: r.Threshold, Prins: strings.Join(ps, ",")}
}

func uniq(xs []string) []string {
	out := xs[:0]
	for i, x := range xs {
		if i == 0 || x != xs[i-1] {
			out = append(out, x)
		}
	}
	return out
}

// expectedWalk is the documented walk on the abstract graph: rules in order; a
// delegated file is entered only through a matching rule and only once; a
// matching terminating rule with a delegated file cuts the rest of its own
// file. When a file can be reached through more than one matching rule
// (duplicate rule names, self delegation - shapes that, but for self
// delegation, cannot be loaded from a repository) the statement does not say
// whether a terminating rule whose file was already entered still cuts, and
// which of the rules enters the file depends on the traversal order, which
// gittuf chooses differently from a strict pre-order (remaining siblings are
// consulted before a delegated file's rules). narrow=true is the reading with
// the most cuts (a matching terminating rule with a file always cuts), narrow=false
// the one with the fewest (it cuts only if it is the only matching rule naming
// that file). With unique names and no cycle both readings coincide.
func expectedWalk(c c06Case, narrow bool) []c06Consulted {
	byName := map[string]c06File{}
	for _, f := range c.Files {
		byName[f.Name] = f
	}
	pointing := map[string]int{} // matching rules naming a file, over the whole graph
	for _, f := range c.Files {
		for _, r := range f.Rules {
			if r.matches(c.Path) {
				pointing[r.Name]++
			}
		}
	}
	entered := map[string]bool{"targets": true}
	var out []c06Consulted
	var walk func(f c06File)
	walk = func(f c06File) {
		for _, r := range f.Rules {
			if !r.matches(c.Path) {
				continue
			}
			out = append(out, f.describe(r))
			sub, has := byName[r.Name]
			if !has {
				continue
			}
			first := !entered[r.Name]
			if first {
				entered[r.Name] = true
				walk(sub)
			}
			if r.Term && (narrow || (first && pointing[r.Name] == 1)) {
				return
			}
		}
	}
	walk(byName["targets"])
	return out
}

// subMultiset reports whether sorted a is a sub-multiset of sorted b.
func subMultiset(a, b []string) bool {
	j := 0
	for _, x := range a {
		for j < len(b) && b[j] < x {
			j++
		}
		if j >= len(b) || b[j] != x {
			return false
		}
		j++
	}
	return true
}

func hasDuplicateNames(c c06Case) bool {
	seen := map[string]bool{}
	for _, f := range c.Files {
		for _, r := range f.Rules {
			if seen[r.Name] {
				return true
			}
			seen[r.Name] = true
		}
	}
	return false
}

func sortedConsulted(xs []c06Consulted) []string {
	out := make([]string, 0, len(xs))
	for _, x := range xs {
		out = append(out, fmt.Sprintf("%s/%d/%s", x.Name, x.Threshold, x.Prins))
	}
	sort.Strings(out)
	return out
}

func runC06(s *kit.Session, c c06Case) *kit.Failure {
	md := &policy.StateMetadata{}
	for _, f := range c.Files {
		if f.Name == "targets" {
			md.TargetsEnvelope = f.envelope()
		} else {
			if md.DelegationEnvelopes == nil {
				md.DelegationEnvelopes = map[string]*sslibdsse.Envelope{}
			}
			md.DelegationEnvelopes[f.Name] = f.envelope()
		}
	}
	state := &policy.State{Metadata: md}
	type result struct {
		vs  []*policy.SignatureVerifier
		err error
		pan any
	}
	query := func() (result, bool) {
		ch := make(chan result, 1)
		go func() {
			var r result
			defer func() {
				if p := recover(); p != nil {
					r.pan = p
				}
				ch <- r
			}()
			r.vs, r.err = state.FindVerifiersForPath(c.Path)
		}()
		select {
		case r := <-ch:
			return r, true
		case <-time.After(5 * time.Second):
			return result{}, false
		}
	}
	r1, ok := query()
	if !ok {
		return &kit.Failure{Cause: "non-termination", Msg: "FindVerifiersForPath did not return within 5s"}
	}
	if r1.pan != nil {
		return &kit.Failure{Cause: "panic", Msg: fmt.Sprintf("FindVerifiersForPath panicked: %v", r1.pan)}
	}
	if r1.err != nil {
		return &kit.Failure{Cause: "walk-error", Msg: "FindVerifiersForPath failed on well-formed metadata: " + r1.err.Error()}
	}
	describe := func(vs []*policy.SignatureVerifier) []c06Consulted {
		var got []c06Consulted
		for _, v := range vs {
			var ps []string
			for _, p := range v.VerifPrincipals() {
				if p == nil {
					ps = append(ps, "<nil principal>")
					continue
				}
				var ks []string
				for _, k := range p.Keys() {
					ks = append(ks, k.KeyID)
				}
				sort.Strings(ks)
				ps = append(ps, p.ID()+"="+strings.Join(uniq(ks), "+"))
			}
			sort.Strings(ps)
			got = append(got, c06Consulted{Name: v.Name(), Threshold: v.Threshold(), Prins: strings.Join(ps, ",")})
		}
		return got
	}
	got := describe(r1.vs)
	dup := hasDuplicateNames(c)
	anyMatch := false
	allRules := map[string]bool{}
	for _, f := range c.Files {
		for _, r := range f.Rules {
			if r.matches(c.Path) {
				d := f.describe(r)
				allRules[fmt.Sprintf("%s/%d/%s", d.Name, d.Threshold, d.Prins)] = true
			}
		}
	}
	want := expectedWalk(c, false)   // fewest cuts
	wantMin := expectedWalk(c, true) // most cuts
	anyMatch = len(want) > 0
	{
		// every rule of the narrow reading must be consulted, nothing outside the
		// wide reading may be (the two coincide for loadable, acyclic policies);
		// compared as multisets
		ws, wm, gs := sortedConsulted(want), sortedConsulted(wantMin), sortedConsulted(got)
		if !subMultiset(wm, gs) || !subMultiset(gs, ws) {
			return &kit.Failure{Cause: "wrong-rules", Msg: fmt.Sprintf("path %s: consulted rules differ from the documented walk\n want at least %v\n want at most  %v\n  got %v", c.Path, wm, ws, gs)}
		}
		for _, g := range gs {
			if !allRules[g] {
				return &kit.Failure{Cause: "wrong-rules", Msg: fmt.Sprintf("path %s: consulted %s which is not a matching rule of any file (with its own principals)", c.Path, g)}
			}
		}
	}
	if (len(got) == 0) != !anyMatch {
		return &kit.Failure{Cause: "protection-misreported", Msg: fmt.Sprintf("path %s: %d verifiers returned but reachable matching rules = %v", c.Path, len(got), anyMatch)}
	}
	// memo: same query again
	r2, ok := query()
	if !ok || r2.pan != nil || r2.err != nil {
		return &kit.Failure{Cause: "memo", Msg: "second query failed"}
	}
	if fmt.Sprint(sortedConsulted(describe(r2.vs))) != fmt.Sprint(sortedConsulted(got)) {
		return &kit.Failure{Cause: "memo", Msg: "repeating the query on the same state gives a different answer"}
	}
	reach := map[string]bool{}
	for _, w := range want {
		reach[w.Name] = true
	}
	nreach := 1
	termWithFile := false
	for _, f := range c.Files[1:] {
		if reach[f.Name] {
			nreach++
		}
	}
	for _, f := range c.Files {
		for _, r := range f.Rules {
			if r.Term && r.matches(c.Path) {
				for _, g := range c.Files {
					if g.Name == r.Name {
						termWithFile = true
					}
				}
			}
		}
	}
	classes := []string{}
	if dup {
		classes = append(classes, "duplicate_names_cycle_or_diamond")
	}
	if termWithFile {
		classes = append(classes, "terminating_with_file")
	}
	if !anyMatch {
		classes = append(classes, "unprotected")
	}
	s.Observe(c, nreach >= 2 || termWithFile || dup, classes...)
	return nil
}


// c06EnumCase maps an index to a delegation graph of two rule files (targets,
// f1) with 0..2 rules each; every rule is name x pattern x terminating flag.
// Single principal per file, threshold 1 (principal resolution is the rapid
// campaign's business).
func c06EnumCase(names, pats, paths []string, i int) (c06Case, bool) {
	nopt := len(names) * len(pats) * 2
	perFile := 1 + nopt + nopt*nopt
	total := perFile * perFile * len(paths)
	if i >= total {
		return c06Case{}, false
	}
	c := c06Case{Path: paths[i%len(paths)]}
	i /= len(paths)
	mk := func(fname string, key int, code int) c06File {
		f := c06File{Name: fname, Prins: []c06Prin{{Keys: []int{key}}}}
		var opts []int
		switch {
		case code == 0:
		case code <= nopt:
			opts = []int{code - 1}
		default:
			code -= 1 + nopt
			opts = []int{code / nopt, code % nopt}
		}
		for _, o := range opts {
			r := c06Rule{Term: o%2 == 1, Prins: []int{0}, Threshold: 1}
			o /= 2
			r.Patterns = []string{pats[o%len(pats)]}
			r.Name = names[o/len(pats)]
			f.Rules = append(f.Rules, r)
		}
		return f
	}
	c.Files = []c06File{mk("targets", 0, i%perFile), mk("f1", 1, i/perFile)}
	return c, true
}

func TestC06(t *testing.T) {
	s := kit.Open(t, "C06")
	run := func(c c06Case) *kit.Failure { return runC06(s, c) }
	if rf := kit.Replay(t); rf != nil {
		kit.DoReplay(s, t, rf, run)
		return
	}
	s.SetRule("rapid: delegation graphs of 1-4 rule files x 0-3 rules (+allow rule), rule names drawn from file names (=> delegation) and plain names, unique (loadable) or duplicated (cycles / diamonds), patterns from {literal, prefix-glob, catch-all} x {git:, file:}, random terminating flags, v0.1 (migrated) and v0.2 files, key and person principals whose ids may collide across files with different keys; paths from an 8-element covering set. Oracle: recursive walk on the abstract graph, compared as a multiset (exact for loadable acyclic graphs; for graphs in which a file can be reached twice: at least the walk in which an already entered terminating rule cuts, at most the walk in which it does not) of (rule name, threshold, principal ids with the key ids the rule's own file defines); empty <=> unprotected; repeated query equal; 5s watchdog. Non-trivial: >=2 files reached, or a matching terminating rule with a delegated file, or duplicate names")
	kit.Campaign(s, t, "walk", "walk", s.Budget(150_000, 4_000_000), genC06, run)
	// bounded-exhaustive: every graph of two rule files with <=2 rules each
	names, pats := []string{"f1", "r1"}, []string{"git:refs/heads/main", "git:refs/heads/*", "file:*"}
	paths := []string{"git:refs/heads/main", "git:refs/heads/dev", "file:src/a", "other:zzz"}
	if s.Thorough() {
		names = []string{"f1", "r1", "r2", "targets"}
		pats = []string{"git:refs/heads/main", "git:refs/heads/*", "git:*", "file:src/*", "*"}
	}
	ok := kit.Enumerate(s, t, "enum", "walk", func(i int) (c06Case, bool) { return c06EnumCase(names, pats, paths, i) }, run)
	s.SetExhaustive(ok)
	s.SetExtra("enumeration_bound", fmt.Sprintf("every delegation graph over the rule files {targets, f1} with 0..2 rules each, rule = name in %v x pattern in %v x terminating flag (self delegation, delegation back to targets and duplicate names included), x paths %v", names, pats, paths))
}
