//go:build verif

package verifchecks

import (
	"fmt"
	"os"
	"path/filepath"
	"sort"
	"strings"
	"testing"

	"github.com/gittuf/gittuf/internal/propagation"
	"github.com/gittuf/gittuf/internal/tuf"
	tufv02 "github.com/gittuf/gittuf/internal/tuf/v02"
	kit "github.com/gittuf/gittuf/internal/verifkit"
	"github.com/gittuf/gittuf/pkg/githash"
	"github.com/gittuf/gittuf/pkg/rsl"
	"pgregory.net/rapid"
)

// ---------------------------------------------------------------------------
// C18 - Propagation copies exactly the upstream subtree and is idempotent
// ---------------------------------------------------------------------------

type c18Directive struct {
	UpPath   string `json:"up_path"`   // "" = whole tree
	DownPath string `json:"down_path"` // may carry a trailing slash
}

type c18Step struct {
	Op    string         `json:"op"` // propagate | upstream-update | upstream-skip-latest
	Files map[string]int `json:"files,omitempty"`
}

type c18Case struct {
	Upstream   map[string]int `json:"upstream"`   // initial upstream tree ("" = upstream has no entry yet)
	Downstream map[string]int `json:"downstream"` // initial downstream tree
	Directives []c18Directive `json:"directives"`
	Steps      []c18Step      `json:"steps"`
}

const (
	c18UpRef   = "refs/heads/main"
	c18DownRef = "refs/heads/main"
	c18UpLoc   = "https://upstream.example/repo"
)

func genC18(rt *rapid.T) c18Case {
	c := c18Case{}
	upDirs := []string{"metadata", "pkg", "meta data"}
	// upstream tree: a few files under the directories a directive may name, plus odd names
	mkUp := func(label string) map[string]int {
		files := map[string]int{}
		n := rapid.IntRange(1, 5).Draw(rt, label+"n")
		for i := 0; i < n; i++ {
			var p string
			if rapid.IntRange(0, 2).Draw(rt, label+"indir") != 0 {
				p = rapid.SampledFrom(upDirs).Draw(rt, label+"dir") + "/" + genPath(rt, nil)
			} else {
				p = genPath(rt, nil)
			}
			files[p] = 1 + rapid.IntRange(0, 3).Draw(rt, label+"v")
			if !consistentPaths(files) {
				delete(files, p)
			}
		}
		// make sure the directories that directives name exist
		for _, d := range upDirs[:2] {
			has := false
			for p := range files {
				if strings.HasPrefix(p, d+"/") {
					has = true
				}
			}
			if !has {
				files[d+"/f"] = 1
			}
		}
		if !consistentPaths(files) {
			return map[string]int{"metadata/f": 1, "pkg/f": 1}
		}
		return files
	}
	if rapid.IntRange(0, 7).Draw(rt, "noupstream") != 0 {
		c.Upstream = mkUp("up0")
	}
	downDirs := []string{"vendor", "third party", "foo", "deps/x"}
	nd := rapid.IntRange(1, 3).Draw(rt, "ndirectives")
	used := map[string]bool{}
	for i := 0; i < nd; i++ {
		d := c18Directive{}
		if rapid.Bool().Draw(rt, "haspath") {
			d.UpPath = rapid.SampledFrom(upDirs[:2]).Draw(rt, "uppath")
		}
		dp := rapid.SampledFrom(downDirs).Draw(rt, "downpath")
		if used[dp] {
			continue
		}
		used[dp] = true
		d.DownPath = dp
		if rapid.Bool().Draw(rt, "slash") {
			d.DownPath += "/"
		}
		c.Directives = append(c.Directives, d)
	}
	// downstream tree: unrelated files, odd names, names colliding by prefix with the downstream paths
	c.Downstream = map[string]int{"README": 1}
	n := rapid.IntRange(0, 5).Draw(rt, "ndown")
	for i := 0; i < n; i++ {
		var p string
		switch rapid.IntRange(0, 4).Draw(rt, "downkind") {
		case 0: // prefix collision with a downstream path: foo.x, foobar/y
			base := strings.TrimSuffix(c.Directives[0].DownPath, "/")
			p = base + rapid.SampledFrom([]string{".x", "bar/y", " ", "-old/z", "x"}).Draw(rt, "collide")
		case 1: // stale content under a downstream path
			base := strings.TrimSuffix(c.Directives[rapid.IntRange(0, len(c.Directives)-1).Draw(rt, "which")].DownPath, "/")
			p = base + "/" + genPath(rt, nil)
		default:
			p = genPath(rt, []string{"src", "a b"})
		}
		c.Downstream[p] = 1 + rapid.IntRange(0, 2).Draw(rt, "dv")
		if !consistentPaths(c.Downstream) {
			delete(c.Downstream, p)
		}
	}
	if rapid.IntRange(0, 9).Draw(rt, "downpathisfile") == 0 {
		base := strings.TrimSuffix(c.Directives[0].DownPath, "/")
		trial := copyFiles(c.Downstream)
		for p := range trial {
			if strings.HasPrefix(p, base+"/") {
				delete(trial, p)
			}
		}
		trial[base] = 7
		if consistentPaths(trial) {
			c.Downstream = trial
		}
	}
	ns := rapid.IntRange(1, 5).Draw(rt, "nsteps")
	for i := 0; i < ns; i++ {
		op := rapid.SampledFrom([]string{"propagate", "propagate", "propagate", "upstream-update", "upstream-skip-latest"}).Draw(rt, "op")
		st := c18Step{Op: op}
		if op == "upstream-update" {
			st.Files = mkUp(fmt.Sprintf("up%d", i+1))
		}
		c.Steps = append(c.Steps, st)
	}
	c.Steps = append(c.Steps, c18Step{Op: "propagate"}, c18Step{Op: "propagate"})
	return c
}

// readTree reads a tree with NUL-delimited plumbing (never through gitinterface's parsers).
func c18ReadTree(g *kit.GitStore, rev string) (map[string]string, error) {
	out, err := g.Git(nil, "ls-tree", "-r", "-z", rev)
	if err != nil {
		return nil, err
	}
	files := map[string]string{}
	for _, rec := range strings.Split(string(out), "\x00") {
		if rec == "" {
			continue
		}
		meta, name, ok := strings.Cut(rec, "\t")
		if !ok {
			return nil, fmt.Errorf("bad ls-tree record %q", rec)
		}
		f := strings.Fields(meta)
		files[name] = f[2]
	}
	return files, nil
}

func subtreeOf(files map[string]string, dir string) map[string]string {
	if dir == "" {
		return files
	}
	out := map[string]string{}
	for p, id := range files {
		if strings.HasPrefix(p, dir+"/") {
			out[strings.TrimPrefix(p, dir+"/")] = id
		}
	}
	return out
}

func treeDesc(m map[string]string) string {
	keys := sortedKeys(m)
	var b strings.Builder
	for _, k := range keys {
		fmt.Fprintf(&b, "  %q=%s\n", k, m[k][:8])
	}
	return b.String()
}

func runC18(t *testing.T, s *kit.Session, c c18Case) *kit.Failure {
	rsl.VerifResetCache()
	tmp, err := os.MkdirTemp("", "c18-")
	if err != nil {
		panic(err)
	}
	defer os.RemoveAll(tmp)
	up := kit.NewGitStore(t, filepath.Join(tmp, "upstream"), true)
	down := kit.NewGitStore(t, filepath.Join(tmp, "downstream"), true)
	upBlobs, downBlobs := map[int]string{}, map[int]string{}
	harness := func(err error) *kit.Failure { return &kit.Failure{Cause: "harness", Msg: err.Error()} }

	var upParent githash.Hash
	var upEntries []string // ids of upstream RSL entries for the ref, in order
	skipped := map[string]bool{}
	upTreeOf := map[string]map[string]string{} // upstream entry id -> tree (path -> blob)
	pushUpstream := func(files map[string]int) error {
		tid, err := c10WriteTree(up, files, upBlobs)
		if err != nil {
			return err
		}
		var parents []githash.Hash
		if upParent != nil {
			parents = []githash.Hash{upParent}
		}
		commit, err := up.RawCommit(kit.HashOf(tid), parents, "upstream\n", nil)
		if err != nil {
			return err
		}
		upParent = commit
		if err := up.SetReference(c18UpRef, commit); err != nil {
			return err
		}
		if err := rsl.NewReferenceEntry(c18UpRef, commit).Commit(up, false); err != nil {
			return err
		}
		tip, err := up.GetReference(rsl.Ref)
		if err != nil {
			return err
		}
		tree, err := c18ReadTree(up, commit.String())
		if err != nil {
			return err
		}
		upEntries = append(upEntries, tip.String())
		upTreeOf[tip.String()] = tree
		return nil
	}
	if c.Upstream != nil {
		if err := pushUpstream(c.Upstream); err != nil {
			return harness(err)
		}
	} else {
		// the upstream repository needs an RSL to be cloned/read at all: record an unrelated ref
		tid, _ := c10WriteTree(up, map[string]int{"x": 1}, upBlobs)
		commit, err := up.RawCommit(kit.HashOf(tid), nil, "other\n", nil)
		if err != nil {
			return harness(err)
		}
		if err := rsl.NewReferenceEntry("refs/heads/other", commit).Commit(up, false); err != nil {
			return harness(err)
		}
	}
	// downstream: initial commit on the downstream ref, recorded
	dtid, err := c10WriteTree(down, c.Downstream, downBlobs)
	if err != nil {
		return harness(err)
	}
	dcommit, err := down.RawCommit(kit.HashOf(dtid), nil, "downstream\n", nil)
	if err != nil {
		return harness(err)
	}
	if err := down.SetReference(c18DownRef, dcommit); err != nil {
		return harness(err)
	}
	if err := rsl.NewReferenceEntry(c18DownRef, dcommit).Commit(down, false); err != nil {
		return harness(err)
	}
	var directives []tuf.PropagationDirective
	for i, d := range c.Directives {
		directives = append(directives, tufv02.NewPropagationDirective(fmt.Sprintf("d%d", i), c18UpLoc, c18UpRef, d.UpPath, c18DownRef, d.DownPath))
	}
	repetition, withUpPath, oddOutside := false, false, false
	for _, d := range c.Directives {
		if d.UpPath != "" {
			withUpPath = true
		}
	}
	propagations := 0
	for si, st := range c.Steps {
		fail := func(cause, f string, a ...any) *kit.Failure {
			return &kit.Failure{Cause: cause, Msg: fmt.Sprintf("step %d (%s): %s", si, st.Op, fmt.Sprintf(f, a...))}
		}
		switch st.Op {
		case "upstream-update":
			if err := pushUpstream(st.Files); err != nil {
				return harness(err)
			}
			continue
		case "upstream-skip-latest":
			// revoke the latest unskipped upstream entry
			for i := len(upEntries) - 1; i >= 0; i-- {
				if !skipped[upEntries[i]] {
					if err := rsl.NewAnnotationEntry([]githash.Hash{kit.HashOf(upEntries[i])}, true, "revoked").Commit(up, false); err != nil {
						return harness(err)
					}
					skipped[upEntries[i]] = true
					break
				}
			}
			continue
		}
		// ---- propagate -----------------------------------------------------------
		propagations++
		if propagations > 1 {
			repetition = true
		}
		beforeTip, err := down.GetReference(c18DownRef)
		if err != nil {
			return harness(err)
		}
		beforeTree, err := c18ReadTree(down, beforeTip.String())
		if err != nil {
			return harness(err)
		}
		beforeChain, err := kit.WalkChain(down, kit.RSLRef)
		if err != nil {
			return harness(err)
		}
		rsl.VerifResetCache()
		perr := propagation.PropagateChangesFromUpstreamRepository(down.Repository, up.Repository, directives, false)
		if perr != nil {
			return fail("propagation-error", "%v", perr)
		}
		afterTip, _ := down.GetReference(c18DownRef)
		afterTree, err := c18ReadTree(down, afterTip.String())
		if err != nil {
			return harness(err)
		}
		afterChain, err := kit.WalkChain(down, kit.RSLRef)
		if err != nil {
			return fail("chain-unreadable", "%v", err)
		}
		// the upstream state to propagate: latest unskipped entry
		src := ""
		for i := len(upEntries) - 1; i >= 0; i-- {
			if !skipped[upEntries[i]] {
				src = upEntries[i]
				break
			}
		}
		// expected tree and number of propagations, directive by directive
		expect := map[string]string{}
		for k, v := range beforeTree {
			expect[k] = v
		}
		wantNew := 0
		if src != "" {
			for _, d := range c.Directives {
				dp := strings.TrimSuffix(d.DownPath, "/")
				u := subtreeOf(upTreeOf[src], d.UpPath)
				cur := subtreeOf(expect, dp)
				same := len(cur) == len(u) && len(u) > 0
				for k, v := range u {
					if cur[k] != v {
						same = false
					}
				}
				if _, isFile := expect[dp]; isFile {
					same = false
				}
				if same {
					continue
				}
				wantNew++
				for p := range expect {
					if strings.HasPrefix(p, dp+"/") || p == dp {
						delete(expect, p)
					}
				}
				for q, id := range u {
					expect[dp+"/"+q] = id
				}
			}
		}
		if fmt.Sprint(sortedPairs(afterTree)) != fmt.Sprint(sortedPairs(expect)) {
			return fail("wrong-tree", "downstream tree after propagation differs from 'previous tree with each downstream path replaced by the upstream subtree':\n expected\n%s got\n%s", treeDesc(expect), treeDesc(afterTree))
		}
		newEntries := afterChain[len(beforeChain):]
		if len(newEntries) != wantNew {
			return fail("wrong-entry-count", "%d new log entries, expected %d (one per directive whose downstream path did not already hold the upstream content)", len(newEntries), wantNew)
		}
		// count new commits on the downstream ref
		out, err := down.Git(nil, "rev-list", "--count", beforeTip.String()+".."+afterTip.String())
		if err != nil {
			return harness(err)
		}
		if strings.TrimSpace(string(out)) != fmt.Sprint(wantNew) {
			return fail("wrong-commit-count", "%s new commits on the downstream ref, expected %d", strings.TrimSpace(string(out)), wantNew)
		}
		for _, e := range newEntries {
			if e.Kind != "propagation" || e.Ref != c18DownRef || e.Up != c18UpLoc || e.UpEntry != src {
				return fail("wrong-entry", "new entry %s is %s for %s naming upstream %q entry %s; expected a propagation entry for %s naming %q entry %s", e.ID, e.Kind, e.Ref, e.Up, e.UpEntry, c18DownRef, c18UpLoc, src)
			}
		}
		if d := kit.CheckChain(afterChain); d != "" {
			return fail("chain-invalid", "%s", d)
		}
		for p := range beforeTree {
			under := false
			for _, d := range c.Directives {
				dp := strings.TrimSuffix(d.DownPath, "/")
				if strings.HasPrefix(p, dp+"/") || p == dp {
					under = true
				}
			}
			if !under && oddPath(p) {
				oddOutside = true
			}
		}
	}
	classes := []string{}
	if withUpPath {
		classes = append(classes, "directive_with_upstream_path")
	}
	if repetition {
		classes = append(classes, "repetition")
	}
	if oddOutside {
		classes = append(classes, "odd_name_outside_downstream_path")
	}
	if c.Upstream == nil {
		classes = append(classes, "upstream_without_entry")
	}
	s.Observe(c, withUpPath || oddOutside || repetition, classes...)
	return nil
}

func sortedPairs(m map[string]string) []string {
	out := make([]string, 0, len(m))
	for k, v := range m {
		out = append(out, k+"\x00"+v)
	}
	sort.Strings(out)
	return out
}

func TestC18(t *testing.T) {
	s := kit.Open(t, "C18")
	run := func(c c18Case) *kit.Failure { return runC18(t, s, c) }
	if rf := kit.Replay(t); rf != nil {
		kit.DoReplay(s, t, rf, run)
		return
	}
	s.SetRule("rapid on pairs of real repositories: upstream trees (files under 'metadata', 'pkg', 'meta data' and at the top, odd names from the C10 alphabet, names that look like relative-path or option syntax such as '..x', '...', '-n') and downstream trees (unrelated files with odd names, names that are prefixes of a downstream path such as foo.x / foobar/y / 'foo ', stale content under a downstream path, optionally a plain file where the downstream path is), 1-3 directives per upstream (with or without upstream path, downstream path with or without trailing slash), and 3-7 steps of {propagate, upstream update, revoke the latest upstream entry}, always ending with two propagations. Oracle: tree algebra on path->blob maps read with ls-tree -z: downstream tree = previous tree with each downstream path replaced by exactly the latest unskipped upstream subtree, everything else byte-identical; exactly one commit and one propagation entry (naming the upstream location and entry) per directive whose path did not already hold that content, none otherwise. Non-trivial: a directive with an upstream path, an odd name outside the downstream paths, or a repetition")
	kit.Campaign(s, t, "propagation", "propagation", s.Budget(96, 6_000), genC18, run)
}
