//go:build verif

package verifchecks

import (
	"context"
	"errors"
	"fmt"
	"os"
	"path/filepath"
	"sort"
	"testing"

	gittuf "github.com/gittuf/gittuf/experimental/gittuf"
	rootopts "github.com/gittuf/gittuf/experimental/gittuf/options/root"
	trustpolicyopts "github.com/gittuf/gittuf/experimental/gittuf/options/trustpolicy"
	"github.com/gittuf/gittuf/internal/signerverifier/ssh"
	"github.com/gittuf/gittuf/internal/tuf"
	kit "github.com/gittuf/gittuf/internal/verifkit"
	"github.com/gittuf/gittuf/pkg/rsl"
	"pgregory.net/rapid"
)

// Last clause of C20: "a principal is only ever run hooks that the applied
// policy assigns to that principal". Sequences of hook edits (add / remove, for
// one or two stages, assigned to subsets of principals), principal additions,
// applies and invocations through experimental/gittuf on a real repository,
// against a model of the applied policy's hook table.

type c20HookOp struct {
	Op     string `json:"op"` // add | remove | principal | apply | discard | invoke
	Name   string `json:"name,omitempty"`
	Stages []int  `json:"stages,omitempty"` // 0 pre-commit, 1 pre-push
	Keys   []int  `json:"keys,omitempty"`   // principals the hook is assigned to
	Key    int    `json:"key,omitempty"`    // principal / invoking key
	Code   int    `json:"code,omitempty"`   // the hook returns this number
}

type c20HookCase struct {
	Ops []c20HookOp `json:"ops"`
}

var c20Stages = []tuf.HookStage{tuf.HookStagePreCommit, tuf.HookStagePrePush}

func genC20HookOp(rt *rapid.T, kinds []string) c20HookOp {
	op := c20HookOp{Op: rapid.SampledFrom(kinds).Draw(rt, "op")}
	switch op.Op {
	case "add":
		op.Name = rapid.SampledFrom([]string{"h1", "h2", "h3"}).Draw(rt, "name")
		op.Stages = rapid.SampledFrom([][]int{{0}, {0}, {1}, {0, 1}}).Draw(rt, "stages")
		op.Keys = rapid.SampledFrom([][]int{{0}, {1}, {2}, {0, 1}, {1, 2}, {0, 1, 2}, {3}}).Draw(rt, "keys")
		op.Code = rapid.IntRange(0, 9).Draw(rt, "code")
	case "remove":
		op.Name = rapid.SampledFrom([]string{"h1", "h2", "h3"}).Draw(rt, "name")
		op.Stages = rapid.SampledFrom([][]int{{0}, {1}, {0, 1}}).Draw(rt, "stages")
	case "principal":
		op.Key = rapid.IntRange(1, 2).Draw(rt, "key")
	case "invoke":
		op.Key = rapid.IntRange(0, 3).Draw(rt, "key")
	}
	return op
}

func genC20Hooks(rt *rapid.T) c20HookCase {
	c := c20HookCase{}
	all := []string{"add", "add", "add", "remove", "principal", "apply", "apply", "discard", "invoke", "invoke", "invoke"}
	if rapid.IntRange(0, 3).Draw(rt, "free") == 0 {
		n := rapid.IntRange(4, 14).Draw(rt, "nops")
		for i := 0; i < n; i++ {
			c.Ops = append(c.Ops, genC20HookOp(rt, all))
		}
	} else {
		// a set of principals and hooks is applied, then edited further (staged only or applied)
		n := rapid.IntRange(2, 6).Draw(rt, "nsetup")
		for i := 0; i < n; i++ {
			c.Ops = append(c.Ops, genC20HookOp(rt, []string{"add", "add", "add", "principal", "principal"}))
		}
		c.Ops = append(c.Ops, c20HookOp{Op: "apply"})
		n = rapid.IntRange(0, 6).Draw(rt, "nedits")
		for i := 0; i < n; i++ {
			c.Ops = append(c.Ops, genC20HookOp(rt, []string{"add", "add", "remove", "remove", "principal", "apply", "discard", "invoke"}))
		}
	}
	// always finish by invoking for every key
	for k := 0; k <= 3; k++ {
		c.Ops = append(c.Ops, c20HookOp{Op: "invoke", Key: k})
	}
	return c
}

type c20HookEntry struct {
	keys map[int]bool
	code int
}

type c20HookTable map[int]map[string]c20HookEntry // stage -> name -> entry

func (t c20HookTable) clone() c20HookTable {
	out := c20HookTable{}
	for st, m := range t {
		out[st] = map[string]c20HookEntry{}
		for k, v := range m {
			out[st][k] = v
		}
	}
	return out
}

func runC20Hooks(t *testing.T, s *kit.Session, c c20HookCase) *kit.Failure {
	rsl.VerifResetCache()
	os.Setenv("GITTUF_DEV", "1")
	tmp, err := os.MkdirTemp("", "c20hooks-")
	if err != nil {
		panic(err)
	}
	defer os.RemoveAll(tmp)
	g := kit.NewGitStore(t, filepath.Join(tmp, "repo"), false)
	keys := &c12Signers{dir: tmp, signers: map[int]*ssh.Signer{}}
	repo := gittuf.VerifWrap(g.Repository)
	ctx := context.Background()
	withEntry := trustpolicyopts.WithRSLEntry()
	root := keys.get(0)
	if err := repo.InitializeRoot(ctx, root, false, rootopts.WithRSLEntry()); err != nil {
		return &kit.Failure{Cause: "harness", Msg: "InitializeRoot: " + err.Error()}
	}
	staged, applied := c20HookTable{0: {}, 1: {}}, c20HookTable(nil)
	stagedPrincipals, appliedPrincipals := map[int]bool{0: true}, map[int]bool(nil)
	checked, selective, stagedOnly := 0, 0, 0
	for i, op := range c.Ops {
		var stages []tuf.HookStage
		for _, st := range op.Stages {
			stages = append(stages, c20Stages[st])
		}
		switch op.Op {
		case "add":
			ids := []string{}
			km := map[int]bool{}
			for _, k := range op.Keys {
				ids = append(ids, kit.Key(k).KeyID)
				km[k] = true
			}
			err := repo.AddHook(ctx, root, stages, op.Name, []byte(fmt.Sprintf("return %d", op.Code)), tuf.HookEnvironmentLua, ids, 5, false, withEntry)
			if err == nil {
				for _, st := range op.Stages {
					staged[st][op.Name] = c20HookEntry{keys: km, code: op.Code}
				}
			}
		case "remove":
			if err := repo.RemoveHook(ctx, root, stages, op.Name, false, withEntry); err == nil {
				for _, st := range op.Stages {
					delete(staged[st], op.Name)
				}
			}
		case "principal":
			if err := repo.AddRootKey(ctx, root, keys.principal(op.Key), false, withEntry); err == nil {
				stagedPrincipals[op.Key] = true
			}
		case "apply":
			if err := repo.ApplyPolicy(ctx, "", true, false); err == nil {
				applied = staged.clone()
				appliedPrincipals = map[int]bool{}
				for k := range stagedPrincipals {
					appliedPrincipals[k] = true
				}
			}
		case "discard":
			if err := repo.DiscardPolicy(); err == nil {
				if applied == nil {
					// nothing can be staged any more: stop modelling edits
					staged = c20HookTable{0: {}, 1: {}}
					stagedPrincipals = map[int]bool{}
				} else {
					staged = applied.clone()
					stagedPrincipals = map[int]bool{}
					for k := range appliedPrincipals {
						stagedPrincipals[k] = true
					}
				}
			}
		case "invoke":
			rsl.VerifResetCache()
			codes, herr := repo.InvokeHooksForStage(ctx, keys.get(op.Key), tuf.HookStagePreCommit)
			fail := func(cause, f string, a ...any) *kit.Failure {
				return &kit.Failure{Cause: cause, Msg: fmt.Sprintf("op %d: InvokeHooksForStage(key %d, pre-commit) = %v, %v: %s", i, op.Key, codes, herr, fmt.Sprintf(f, a...))}
			}
			want := map[string]int{}
			if applied != nil && appliedPrincipals[op.Key] {
				for name, h := range applied[0] {
					if h.keys[op.Key] {
						want[name] = h.code
					}
				}
			}
			for name := range codes {
				if _, ok := want[name]; !ok {
					why := "is not assigned to that principal by the applied policy"
					if _, isStaged := staged[0][name]; isStaged && (applied == nil || applied[0][name].keys == nil) {
						why = "is only staged, not applied"
					}
					return fail("unassigned-hook-run", "hook %q %s (applied assignment: %v)", name, why, sortedHookNames(want))
				}
			}
			if herr == nil {
				for name, code := range want {
					got, ok := codes[name]
					if !ok {
						return fail("assigned-hook-not-run", "hook %q is assigned to the principal but was not run", name)
					}
					if got != code {
						return fail("wrong-hook-contents-run", "hook %q returned %d, the applied hook returns %d", name, got, code)
					}
				}
				if len(want) == 0 {
					return fail("unassigned-hook-run", "success reported although no hook is assigned")
				}
			} else if len(want) > 0 {
				return fail("assigned-hook-not-run", "the applied policy assigns %v", sortedHookNames(want))
			} else if applied != nil && appliedPrincipals[op.Key] && !errors.Is(herr, gittuf.ErrNoHooksFoundForPrincipal) && !errors.Is(herr, tuf.ErrNoHooksDefined) {
				return fail("hook-lookup-error", "a principal without hooks must get ErrNoHooksFoundForPrincipal")
			}
			checked++
			if len(want) > 0 && len(want) < len(applied[0]) {
				selective++
			}
			if applied != nil {
				for name, h := range staged[0] {
					if a, ok := applied[0][name]; (!ok || a.code != h.code) && h.keys[op.Key] {
						stagedOnly++
					}
				}
			}
		}
	}
	classes := []string{"hook_selection"}
	if selective > 0 {
		classes = append(classes, "hooks_for_other_principals_present")
	}
	if stagedOnly > 0 {
		classes = append(classes, "staged_only_hook_for_invoker")
	}
	s.Observe(c, selective > 0 || stagedOnly > 0, classes...)
	return nil
}

func sortedHookNames(m map[string]int) []string {
	out := []string{}
	for k := range m {
		out = append(out, k)
	}
	sort.Strings(out)
	return out
}
