//go:build verif

package verifchecks

import (
	"errors"
	"fmt"
	"testing"

	"github.com/gittuf/gittuf/internal/policy"
	kit "github.com/gittuf/gittuf/internal/verifkit"
	"github.com/gittuf/gittuf/pkg/rsl"
	"pgregory.net/rapid"
)

// ---------------------------------------------------------------------------
// C07 - A violation is tolerated only if revoked and repaired as recovery requires
// ---------------------------------------------------------------------------

// c07Pattern is one point of the enumerated space.
type c07Pattern struct {
	K     int   `json:"k"`
	Cells []int `json:"cells"`          // per entry: auth(2) x tree(3) x skipmode(4) in mixed radix
	Extra int   `json:"extra"`          // 0 none; 1..k+1 policy change before entry (extra-1); k+2..2k+2 attestation entry before entry (extra-k-2)
	Ref2  []int `json:"ref2,omitempty"` // positions after which an entry for a second ref is interleaved (sampled runs only)
	// Lead (sampled runs only): every revoking annotation also names an entry of
	// an unrelated reference - 1: listed first, 2: listed last. Such an entry
	// lies outside the range verified for main.
	Lead int `json:"lead,omitempty"`
}

const c07CellSpace = 24

func c07Space(k int) int {
	n := 1
	for i := 0; i < k; i++ {
		n *= c07CellSpace
	}
	return n * (2*(k+1) + 1)
}

func c07Decode(k, idx int) c07Pattern {
	p := c07Pattern{K: k}
	extras := 2*(k+1) + 1
	p.Extra = idx % extras
	idx /= extras
	for i := 0; i < k; i++ {
		p.Cells = append(p.Cells, idx%c07CellSpace)
		idx /= c07CellSpace
	}
	return p
}

func c07Policies() []kit.PolicySpec {
	mk := func(dev int) kit.PolicySpec {
		root := keyPrin(wgRootKey)
		return kit.PolicySpec{
			RootPrincipals: []kit.PrincipalSpec{root}, RootThreshold: 1,
			TargetsKeys: []kit.PrincipalSpec{root}, TargetsThreshold: 1, RootSigners: []int{wgRootKey},
			Targets: &kit.FileSpec{Signers: []int{wgRootKey}, Principals: []kit.PrincipalSpec{keyPrin(dev)},
				Rules: []kit.RuleSpec{
					{Name: "protect-main", Patterns: []string{"git:refs/heads/main"}, Principals: []int{0}, Threshold: 1},
					{Name: "protect-release", Patterns: []string{"git:refs/heads/release"}, Principals: []int{0}, Threshold: 1},
				}},
		}
	}
	return []kit.PolicySpec{mk(0), mk(1)}
}

// c07World turns a pattern into a world on refs/heads/main.
func c07World(p c07Pattern) kit.World {
	w := kit.World{Policies: c07Policies()}
	w.Events = append(w.Events, kit.Event{Kind: "policy", Policy: 0, Signer: -1})
	foreign := -1
	if p.Lead > 0 {
		w.Events = append(w.Events, kit.Event{Kind: "other", Ref: "refs/heads/unrelated", Tree: 2, Signer: -1})
		foreign = len(w.Events) - 1
	}
	withForeign := func(ts []int) []int {
		switch p.Lead {
		case 1:
			return append([]int{foreign}, ts...)
		case 2:
			return append(append([]int{}, ts...), foreign)
		}
		return ts
	}
	authorised := 0 // key authorised by the policy currently in force
	var pushIdx []int
	var atEnd []int     // individually revoked at the end
	var sharedEnd []int // revoked by one shared annotation at the end
	ref2 := map[int]bool{}
	for _, r := range p.Ref2 {
		ref2[r] = true
	}
	for i := 0; i < p.K; i++ {
		if p.Extra >= 1 && p.Extra <= p.K+1 && p.Extra-1 == i {
			w.Events = append(w.Events, kit.Event{Kind: "policy", Policy: 1, Signer: -1})
			authorised = 1
		}
		if p.Extra >= p.K+2 && p.Extra-p.K-2 == i {
			c := kit.Change{Ref: "refs/heads/release", From: -1, To: 0}
			w.Events = append(w.Events, kit.Event{Kind: "approve", Signer: -1, Items: []kit.AttItem{{Kind: "auth", Stmt: c, Path: c, Signers: []int{0}}}})
		}
		cell := p.Cells[i]
		auth, tree, skip := cell%2, (cell/2)%3, cell/6
		signer := wgUnknownKey
		if auth == 1 {
			signer = authorised
		}
		w.Events = append(w.Events, kit.Event{Kind: "push", Ref: "refs/heads/main", Tree: tree, Signer: signer})
		pi := len(w.Events) - 1
		pushIdx = append(pushIdx, pi)
		switch skip {
		case 1:
			w.Events = append(w.Events, kit.Event{Kind: "annotate", Targets: withForeign([]int{pi}), Skip: true, Signer: -1})
		case 2:
			atEnd = append(atEnd, pi)
		case 3:
			sharedEnd = append(sharedEnd, pi)
		}
		if ref2[i] {
			w.Events = append(w.Events, kit.Event{Kind: "push", Ref: "refs/heads/release", Tree: tree, Signer: authorised})
		}
	}
	// trailing policy / attestation entry (position k)
	if p.Extra == p.K+1 {
		w.Events = append(w.Events, kit.Event{Kind: "policy", Policy: 1, Signer: -1})
	}
	if p.Extra == 2*p.K+2 {
		c := kit.Change{Ref: "refs/heads/release", From: -1, To: 0}
		w.Events = append(w.Events, kit.Event{Kind: "approve", Signer: -1, Items: []kit.AttItem{{Kind: "auth", Stmt: c, Path: c, Signers: []int{0}}}})
	}
	for _, pi := range atEnd {
		w.Events = append(w.Events, kit.Event{Kind: "annotate", Targets: withForeign([]int{pi}), Skip: true, Signer: -1})
	}
	if len(sharedEnd) > 0 {
		w.Events = append(w.Events, kit.Event{Kind: "annotate", Targets: withForeign(sharedEnd), Skip: true, Signer: -1})
	}
	w.Normalise()
	return w
}

func runC07(t *testing.T, s *kit.Session, p c07Pattern) *kit.Failure {
	rsl.VerifResetCache()
	w := c07World(p)
	st := kit.NewMemStore()
	b, err := kit.BuildWorld(st, &w)
	if err != nil {
		return &kit.Failure{Cause: "harness", Msg: "world does not build: " + err.Error()}
	}
	m := &kit.Model{W: &w, Opts: kit.ModelOptions{}}
	check := func(b *kit.Built) *kit.Failure {
		refs := []string{"refs/heads/main"}
		if len(p.Ref2) > 0 {
			refs = append(refs, "refs/heads/release")
		}
		for _, ref := range refs {
			v := m.VerifyFull(ref)
			if v.Kind == "UNSPECIFIED" {
				return &kit.Failure{Cause: "harness", Msg: "model abstains inside the C07 domain: " + v.Why}
			}
			got := verifyFull(b.Store, ref)
			if f := compareVerdict(b, v, got, "VerifyRefFull("+ref+")"); f != nil {
				return f
			}
			if v.Kind == "REJECT" {
				ok := false
				for _, e := range []error{policy.ErrVerificationFailed, policy.ErrInvalidEntryNotSkipped, policy.ErrLastGoodEntryIsSkipped, rsl.ErrRSLEntryNotFound} {
					if errors.Is(got.Err, e) {
						ok = true
					}
				}
				if !ok {
					return &kit.Failure{Cause: "wrong-error-class", Msg: fmt.Sprintf("rejected with an undocumented error %v (model: %s)", got.Err, v.Why)}
				}
			}
		}
		return nil
	}
	if f := confirmOnGit(t, &w, check(b), check); f != nil {
		return f
	}
	nUnauth, nSkip := 0, 0
	for _, c := range p.Cells {
		if c%2 == 0 {
			nUnauth++
		}
		if c/6 > 0 {
			nSkip++
		}
	}
	v := m.VerifyFull("refs/heads/main")
	classes := []string{fmt.Sprintf("k%d", p.K), "verdict_" + v.Kind}
	if p.Extra > 0 && p.Extra <= p.K+1 {
		classes = append(classes, "policy_entry_inside")
	} else if p.Extra > p.K+1 {
		classes = append(classes, "attestation_entry_inside")
	}
	if v.Kind == "ACCEPT" && nUnauth > 0 {
		classes = append(classes, "tolerated_violation")
	}
	if p.Lead > 0 {
		classes = append(classes, "annotation_also_names_unrelated_entry")
	}
	s.ObserveKey(fmt.Sprintf("%d|%v|%d|%v|%d", p.K, p.Cells, p.Extra, p.Ref2, p.Lead), nUnauth >= 1 && nSkip >= 1, func() any { return p }, classes...)
	return nil
}

func TestC07(t *testing.T) {
	s := kit.Open(t, "C07")
	run := func(p c07Pattern) *kit.Failure { return runC07(t, s, p) }
	if rf := kit.Replay(t); rf != nil {
		kit.DoReplay(s, t, rf, run)
		return
	}
	exhaustiveK := 3
	if s.Thorough() {
		exhaustiveK = 4
	}
	s.SetRule(fmt.Sprintf("bounded-exhaustive enumeration of every log of k<=%d entries on refs/heads/main where each entry is independently {authorised, unauthorised} x tree {T0,T1,T2} x revocation {never, annotation right after, own annotation at the end, one shared annotation at the end}, crossed with {no extra entry, a policy entry (changing who is authorised) before entry p or at the end, an attestation entry before entry p or at the end}; plus rapid-sampled logs of k=%d..8 with entries of a second ref interleaved and, in half of them (any k>=1), revoking annotations that also name an entry of an unrelated reference (listed first or last). Oracle: the reference recovery model (last unskipped state, first unskipped tree-same fix, all intermediates revoked); REJECT must carry a documented error. Non-trivial: >=1 unauthorised entry and >=1 revocation; distinct by pattern", exhaustiveK, exhaustiveK+1))
	ok := true
	for k := 1; k <= exhaustiveK && ok; k++ {
		n := c07Space(k)
		kk := k
		ok = kit.Enumerate(s, t, fmt.Sprintf("exhaustive-k%d", k), "pattern", func(i int) (c07Pattern, bool) {
			if i >= n {
				return c07Pattern{}, false
			}
			return c07Decode(kk, i), true
		}, run)
	}
	s.SetExhaustive(ok)
	s.SetExtra("exhaustive_up_to_k", exhaustiveK)
	kit.Campaign(s, t, "sampled", "pattern", s.Budget(16_000, 600_000), func(rt *rapid.T) c07Pattern {
		// logs longer than the enumerated ones, or - with a second ref / foreign
		// annotation targets, which the enumeration does not have - of any length
		variant := rapid.IntRange(0, 3).Draw(rt, "variant")
		lo := exhaustiveK + 1
		if variant >= 2 {
			lo = 1
		}
		k := rapid.IntRange(lo, 8).Draw(rt, "k")
		p := c07Pattern{K: k, Extra: rapid.IntRange(0, 2*(k+1)).Draw(rt, "extra")}
		if variant >= 2 {
			p.Lead = rapid.IntRange(1, 2).Draw(rt, "lead")
		}
		for i := 0; i < k; i++ {
			p.Cells = append(p.Cells, rapid.IntRange(0, c07CellSpace-1).Draw(rt, "cell"))
		}
		if rapid.Bool().Draw(rt, "ref2") || variant == 3 {
			p.Ref2 = rapid.SliceOfNDistinct(rapid.IntRange(0, k-1), 1, 3, func(i int) int { return i }).Draw(rt, "ref2pos")
		}
		return p
	}, run)
}
