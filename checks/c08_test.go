//go:build verif

package verifchecks

import (
	"context"
	"fmt"
	"sort"
	"testing"

	"github.com/gittuf/gittuf/internal/cache"
	"github.com/gittuf/gittuf/internal/policy"
	kit "github.com/gittuf/gittuf/internal/verifkit"
	"github.com/gittuf/gittuf/pkg/rsl"
	"pgregory.net/rapid"
)

// ---------------------------------------------------------------------------
// C08 - Verdicts depend only on the log: never on cache, repetition or checkpoint
// ---------------------------------------------------------------------------

type c08Step struct {
	After int    `json:"after"` // run after event index (when the log has grown that far)
	Ref   string `json:"ref"`
	Mode  string `json:"mode"` // full | latest
}

type c08Case struct {
	World      kit.World `json:"world"`
	PopulateAt int       `json:"populate_at"` // populate the persistent cache after this event (-1: never)
	Steps      []c08Step `json:"steps"`       // earlier verifications that advance the cache
	Gen        []string  `json:"gen,omitempty"`
}

type c08Result struct {
	OK  bool
	Tip string
	Err string
}

func c08Verify(st kit.RawStore, ref, mode string, fromEntry string) c08Result {
	ctx := context.Background()
	v := policy.NewPolicyVerifier(st)
	var tipS string
	var err error
	switch mode {
	case "full":
		tip, e := v.VerifyRefFull(ctx, ref)
		tipS, err = tip.String(), e
	case "latest":
		tip, e := v.VerifyRef(ctx, ref)
		tipS, err = tip.String(), e
	case "from":
		tip, e := v.VerifyRefFromEntry(ctx, ref, mustID(fromEntry))
		tipS, err = tip.String(), e
	case "mergeable":
		_, e := v.VerifyMergeable(ctx, "refs/heads/c08-target-without-entries", ref)
		err = e
	}
	if err != nil {
		return c08Result{Err: err.Error()}
	}
	return c08Result{OK: true, Tip: tipS}
}

func refsSnapshot(st kit.RawStore) map[string]string {
	r, err := st.Refs()
	if err != nil {
		panic(err)
	}
	return r
}

func diffRefs(a, b map[string]string) []string {
	var out []string
	for k, v := range a {
		if b[k] != v {
			out = append(out, k)
		}
	}
	for k := range b {
		if _, ok := a[k]; !ok {
			out = append(out, k)
		}
	}
	sort.Strings(out)
	return uniq(out)
}

func refsWithEntries(w *kit.World) []string {
	seen := map[string]bool{}
	var out []string
	for _, e := range w.Events {
		if (e.Kind == "push" || e.Kind == "prop") && !seen[e.Ref] {
			seen[e.Ref] = true
			out = append(out, e.Ref)
		}
	}
	sort.Strings(out)
	return out
}

func runC08(t *testing.T, s *kit.Session, c c08Case) *kit.Failure {
	w := c.World
	refs := refsWithEntries(&w)
	modes := []string{"full", "latest", "mergeable"}

	// baseline: no persistent cache, every verification cold
	rsl.VerifResetCache()
	base := kit.NewMemStore()
	bb, err := kit.BuildWorld(base, &w)
	if err != nil {
		return &kit.Failure{Cause: "harness", Msg: "world does not build: " + err.Error()}
	}
	want := map[string]c08Result{}
	for _, ref := range refs {
		for _, mode := range modes {
			rsl.VerifResetCache()
			before := refsSnapshot(base)
			want[ref+"|"+mode] = c08Verify(base, ref, mode, "")
			if d := diffRefs(before, refsSnapshot(base)); len(d) != 0 {
				return &kit.Failure{Cause: "verification-changed-refs", Msg: fmt.Sprintf("verifying %s (%s) without a cache changed references %v", ref, mode, d)}
			}
		}
	}
	// checkpoints: after a successful full verification of a prefix, verifying
	// onward from the entry reached must agree with full verification
	type checkpoint struct {
		ref   string
		entry string
	}
	var checkpoints []checkpoint

	model := &kit.Model{W: &w, Opts: kit.ModelOptions{}}
	// cached run
	rsl.VerifResetCache()
	st := kit.NewMemStore()
	b := kit.NewBuilt(st, &w)
	stepsAt := map[int][]c08Step{}
	for _, sp := range c.Steps {
		stepsAt[sp.After] = append(stepsAt[sp.After], sp)
	}
	populated := false
	for i := range w.Events {
		if err := b.ApplyEvent(&w, i); err != nil {
			return &kit.Failure{Cause: "harness", Msg: err.Error()}
		}
		if i == c.PopulateAt {
			if err := cache.PopulatePersistentCache(st); err != nil {
				return &kit.Failure{Cause: "harness", Msg: "PopulatePersistentCache: " + err.Error()}
			}
			populated = true
		}
		for _, sp := range stepsAt[i] {
			hasEntry := false
			lastEntry := ""
			for j := 0; j <= i; j++ {
				if (w.Events[j].Kind == "push" || w.Events[j].Kind == "prop") && w.Events[j].Ref == sp.Ref {
					hasEntry = true
					if w.Events[j].Kind == "push" {
						lastEntry = b.Entry[j]
					}
				}
			}
			if !hasEntry {
				continue
			}
			before := refsSnapshot(st)
			r := c08Verify(st, sp.Ref, sp.Mode, "")
			if d := diffRefs(before, refsSnapshot(st)); len(d) > 1 || (len(d) == 1 && d[0] != cache.Ref) {
				return &kit.Failure{Cause: "verification-changed-refs", Msg: fmt.Sprintf("verifying %s (%s) changed references %v", sp.Ref, sp.Mode, d)}
			}
			// the entry such a verification leaves as the resume point is its last
			// entry when that entry is valid on its own (a fix entry is only
			// acceptable as the end of its recovery, gittuf never resumes from one)
			if r.OK && sp.Mode == "full" && lastEntry != "" && r.Tip == b.Commit[eventOfEntry(b, lastEntry)] {
				ei := eventOfEntry(b, lastEntry)
				pol := -1
				for j := ei - 1; j >= 0; j-- {
					if w.Events[j].Kind == "policy" {
						pol = w.Events[j].Policy
						break
					}
				}
				if jv := model.Judge(ei, pol); jv.Valid && jv.Unspecified == "" {
					checkpoints = append(checkpoints, checkpoint{ref: sp.Ref, entry: lastEntry})
				}
			}
		}
	}
	// identical logs?
	tipA, _ := base.GetReference(rsl.Ref)
	tipB, _ := st.GetReference(rsl.Ref)
	if !tipA.Equal(tipB) {
		return &kit.Failure{Cause: "harness", Msg: "the two builds of the same world produced different logs"}
	}
	for round := 0; round < 2; round++ { // the second round repeats every verification in the same process
		for _, ref := range refs {
			for _, mode := range modes {
				if round == 0 {
					rsl.VerifResetCache()
				}
				before := refsSnapshot(st)
				got := c08Verify(st, ref, mode, "")
				if d := diffRefs(before, refsSnapshot(st)); len(d) > 1 || (len(d) == 1 && d[0] != cache.Ref) {
					return &kit.Failure{Cause: "verification-changed-refs", Msg: fmt.Sprintf("verifying %s (%s) changed references %v", ref, mode, d)}
				}
				exp := want[ref+"|"+mode]
				if got.OK != exp.OK || got.Tip != exp.Tip {
					return &kit.Failure{Cause: "cache-changes-verdict", Msg: fmt.Sprintf("%s verification of %s: without cache ok=%v tip=%s err=%q; with cache populated after event %d and %d earlier verifications (round %d) ok=%v tip=%s err=%q", mode, ref, exp.OK, exp.Tip, exp.Err, c.PopulateAt, len(c.Steps), round, got.OK, got.Tip, got.Err)}
				}
			}
		}
	}
	for _, cp := range checkpoints {
		rsl.VerifResetCache()
		got := c08Verify(base, cp.ref, "from", cp.entry)
		exp := want[cp.ref+"|full"]
		if got.OK != exp.OK || got.Tip != exp.Tip {
			// classify: a skip annotation recorded after the checkpoint that names
			// an entry at or before it changes how the already-verified prefix is
			// judged; VerifyRefFromEntry cannot see that (listed known finding)
			ci := eventOfEntry(b, cp.entry)
			retro := false
			for j := ci + 1; j < len(w.Events); j++ {
				if w.Events[j].Kind == "annotate" && w.Events[j].Skip {
					for _, tg := range w.Events[j].Targets {
						if tg <= ci {
							retro = true
						}
					}
				}
			}
			if retro && s.IsKnown("C08-from-entry-after-retroactive-revocation") {
				s.KnownHit("C08-from-entry-after-retroactive-revocation", c)
				continue
			}
			return &kit.Failure{Cause: "checkpoint-changes-verdict", Msg: fmt.Sprintf("verifying %s onward from entry %s (reached by an earlier successful verification) gives ok=%v tip=%s err=%q, the whole log gives ok=%v tip=%s err=%q", cp.ref, cp.entry, got.OK, got.Tip, got.Err, exp.OK, exp.Tip, exp.Err)}
		}
	}
	_ = bb
	// classes
	laterPolicyOrAtt := false
	if c.PopulateAt >= 0 {
		for j := c.PopulateAt + 1; j < len(w.Events); j++ {
			if k := w.Events[j].Kind; k == "policy" || k == "approve" {
				laterPolicyOrAtt = true
			}
		}
	}
	rejecting := false
	for _, r := range want {
		if !r.OK {
			rejecting = true
		}
	}
	classes := []string{}
	if !populated {
		classes = append(classes, "no_cache")
	} else if laterPolicyOrAtt {
		classes = append(classes, "cache_older_than_policy_or_attestation_entry")
	} else {
		classes = append(classes, "cache_fresh")
	}
	if rejecting {
		classes = append(classes, "rejecting_history")
	}
	if len(checkpoints) > 0 {
		classes = append(classes, "checkpoint_checked")
	}
	for _, g := range c.Gen {
		if g == "retroactive_revocation_after_cached_full_verification" {
			classes = append(classes, g)
		}
	}
	s.Observe(c, (populated && laterPolicyOrAtt) || rejecting || len(c.Steps) >= 2, classes...)
	return nil
}

func eventOfEntry(b *kit.Built, entry string) int {
	for i, e := range b.Entry {
		if e == entry {
			return i
		}
	}
	return 0
}

// genC08Retro builds the shape in which the verdict of an already verified
// prefix changes afterwards: a violation is revoked and repaired, the reference
// is verified in full with the cache (which records a resume point), and only
// then is the fix (or the last good entry) revoked as well.
func genC08Retro(rt *rapid.T) c08Case {
	w := kit.World{Policies: c07Policies()}
	add := func(e kit.Event) int { w.Events = append(w.Events, e); return len(w.Events) - 1 }
	add(kit.Event{Kind: "policy", Policy: 0, Signer: -1})
	good := add(kit.Event{Kind: "push", Ref: "refs/heads/main", Tree: 0, Signer: 0})
	if rapid.Bool().Draw(rt, "other1") {
		add(kit.Event{Kind: "other", Ref: "refs/heads/unrelated", Tree: 1, Signer: -1})
	}
	bad := add(kit.Event{Kind: "push", Ref: "refs/heads/main", Tree: 1, Signer: wgUnknownKey})
	add(kit.Event{Kind: "annotate", Targets: []int{bad}, Skip: true, Signer: -1})
	fix := add(kit.Event{Kind: "push", Ref: "refs/heads/main", Tree: 0, Signer: rapid.SampledFrom([]int{0, wgUnknownKey}).Draw(rt, "fixsigner")})
	last := fix
	if rapid.Bool().Draw(rt, "onemore") {
		last = add(kit.Event{Kind: "push", Ref: "refs/heads/main", Tree: rapid.IntRange(0, 2).Draw(rt, "tree4"), Signer: 0})
	}
	if rapid.Bool().Draw(rt, "release") {
		add(kit.Event{Kind: "push", Ref: "refs/heads/release", Tree: 1, Signer: 0})
	}
	verifyAfter := len(w.Events) - 1
	target := rapid.SampledFrom([]int{fix, fix, good, last}).Draw(rt, "revoked")
	add(kit.Event{Kind: "annotate", Targets: []int{target}, Skip: true, Signer: -1})
	if rapid.Bool().Draw(rt, "other2") {
		add(kit.Event{Kind: "other", Ref: "refs/heads/unrelated", Tree: 2, Signer: -1})
	}
	w.Normalise()
	c := c08Case{World: w, Gen: []string{"retroactive_revocation_after_cached_full_verification"}, PopulateAt: rapid.IntRange(0, verifyAfter).Draw(rt, "populate_at")}
	c.Steps = []c08Step{{After: verifyAfter, Ref: "refs/heads/main", Mode: "full"}}
	if rapid.Bool().Draw(rt, "twice") {
		c.Steps = append(c.Steps, c08Step{After: verifyAfter, Ref: "refs/heads/main", Mode: rapid.SampledFrom([]string{"full", "latest"}).Draw(rt, "mode2")})
	}
	return c
}

func genC08(rt *rapid.T) c08Case {
	if rapid.IntRange(0, 5).Draw(rt, "retro") == 0 {
		return genC08Retro(rt)
	}
	cl := map[string]bool{}
	w := genWorld(rt, wgOptions{Delegation: true, MaxEvents: 14}, cl)
	c := c08Case{World: w, Gen: sortedKeys(cl), PopulateAt: -1}
	n := len(w.Events)
	if rapid.IntRange(0, 5).Draw(rt, "nocache") != 0 {
		c.PopulateAt = rapid.IntRange(0, n-1).Draw(rt, "populate_at")
	}
	ns := rapid.IntRange(0, 4).Draw(rt, "nsteps")
	for i := 0; i < ns; i++ {
		lo := 0
		if c.PopulateAt > 0 {
			lo = c.PopulateAt
		}
		c.Steps = append(c.Steps, c08Step{After: rapid.IntRange(lo, n-1).Draw(rt, "after"), Ref: rapid.SampledFrom(wgRefs).Draw(rt, "sref"), Mode: rapid.SampledFrom([]string{"full", "full", "latest"}).Draw(rt, "smode")})
	}
	return c
}

func TestC08(t *testing.T) {
	s := kit.Open(t, "C08")
	run := func(c c08Case) *kit.Failure { return runC08(t, s, c) }
	if rf := kit.Replay(t); rf != nil {
		kit.DoReplay(s, t, rf, run)
		return
	}
	s.SetRule("rapid: C01 worlds (key-disjoint principals, up to 14 events) x cache configuration {never populated, PopulatePersistentCache after event k for any k} x 0-4 earlier verifications (full / latest-only, of any ref, at any later point of the log's growth, each of which advances the cache); one case in six is the targeted shape 'violation revoked and repaired, reference verified in full with the cache, then the fix / last good / latest entry revoked too'. Metamorphic oracle: every verification mode (full, latest-only, mergeability) of every ref gives the same verdict and tip as on an identical log without any cache; the same when repeated in one process; VerifyRefFromEntry from every entry reached by an earlier successful full verification equals full verification; the ref listing changes at most in refs/local/gittuf/persistent-cache. Non-trivial: cache populated before a later policy/attestation entry, or a rejecting history, or >=2 earlier verifications")
	kit.Campaign(s, t, "cache", "cache", s.Budget(6_000, 150_000), genC08, run)
}
