//go:build verif

package verifchecks

import (
	"bytes"
	"fmt"
	"os"
	"os/exec"
	"path/filepath"
	"regexp"
	"strconv"
	"strings"
	"sync"
	"testing"
	"time"

	kit "github.com/gittuf/gittuf/internal/verifkit"
	"github.com/gittuf/gittuf/pkg/githash"
	"github.com/gittuf/gittuf/pkg/gitinterface"
	"github.com/gittuf/gittuf/pkg/gitstore"
	"github.com/gittuf/gittuf/pkg/rsl"
	"pgregory.net/rapid"
)

// ---------------------------------------------------------------------------
// C17, process mode: real OS processes hammering one on-disk repository.
// The interleaving is whatever the OS produces (not an input), so a case does
// not replay deterministically; the history of every worker and the final
// chain are printed with a failure, and a replay repeats the case several
// times.
// ---------------------------------------------------------------------------

type c17ProcCase struct {
	Workers int      `json:"workers"`
	Ops     int      `json:"ops"`
	Prefix  int      `json:"prefix"`
	Kinds   []string `json:"kinds"` // per worker: ref | ann | prop | mixed
	Rounds  int      `json:"rounds,omitempty"` // the case is repeated on fresh repositories (creation races are short)
}

func c17ProcRefName(w, j int) string { return fmt.Sprintf("refs/heads/w%d-op%d", w, j) }
func c17ProcAnnMsg(w, j int) string  { return fmt.Sprintf("w%d-op%d", w, j) }

func c17ProcKind(kind string, j int) string {
	if kind == "mixed" {
		return []string{"ref", "ann", "prop"}[j%3]
	}
	return kind
}

// TestC17Worker is the child: it records VERIF_C17_OPS entries, one after the
// other, through gittuf's own write path and reports each outcome.
func TestC17Worker(t *testing.T) {
	dir := os.Getenv("VERIF_C17_DIR")
	if dir == "" {
		t.Skip("only used as a child process of TestC17")
	}
	w, _ := strconv.Atoi(os.Getenv("VERIF_C17_WORKER"))
	n, _ := strconv.Atoi(os.Getenv("VERIF_C17_OPS"))
	kind := os.Getenv("VERIF_C17_KIND")
	ids := strings.Split(os.Getenv("VERIF_C17_IDS"), ",")
	first := os.Getenv("VERIF_C17_FIRST")
	realRepo, err := gitinterface.LoadRepository(dir)
	if err != nil {
		fmt.Println("C17W harness-error", err)
		return
	}
	repo := &c17CountingStorer{Storer: realRepo}
	// barrier: announce readiness, then wait for the parent's start signal so
	// that all workers issue their first operation at the same moment
	if bar := os.Getenv("VERIF_C17_BARRIER"); bar != "" {
		_ = os.WriteFile(fmt.Sprintf("%s.ready%d", bar, w), nil, 0o644)
		for i := 0; i < 600000; i++ {
			if _, err := os.Stat(bar + ".go"); err == nil {
				break
			}
			time.Sleep(100 * time.Microsecond)
		}
	}
	h := func(s string) githash.Hash {
		x, err := githash.NewHash(s)
		if err != nil {
			panic(err)
		}
		return x
	}
	for j := 0; j < n; j++ {
		var err error
		k := c17ProcKind(kind, j)
		if first == "" && k == "ann" {
			k = "ref" // the writers race to create the log: nothing to annotate yet
		}
		switch k {
		case "ref":
			err = rsl.NewReferenceEntry(c17ProcRefName(w, j), h(ids[(w+j)%4])).Commit(repo, false)
		case "prop":
			err = rsl.NewPropagationEntry(c17ProcRefName(w, j), h(ids[(w+j)%4]), "https://up/A", h(ids[4])).Commit(repo, false)
		case "ann":
			err = rsl.NewAnnotationEntry([]githash.Hash{h(first)}, false, c17ProcAnnMsg(w, j)).Commit(repo, false)
		}
		if err != nil {
			fmt.Printf("C17W op=%d kind=%s cf=%d err=%q\n", j, k, repo.failedCommits, err.Error())
		} else {
			fmt.Printf("C17W op=%d kind=%s cf=%d ok\n", j, k, repo.failedCommits)
		}
		repo.failedCommits = 0
	}
	fmt.Println("C17W finished")
}

// c17CountingStorer lets the worker see whether a storage-level commit failed
// during an operation (another writer won the race for the tip).
type c17CountingStorer struct {
	gitstore.Storer
	failedCommits int
}

func (c *c17CountingStorer) Commit(treeID githash.Hash, targetRef, message string, sign bool) (githash.Hash, error) {
	id, err := c.Storer.Commit(treeID, targetRef, message, sign)
	if err != nil {
		c.failedCommits++
	}
	return id, err
}

func (c *c17CountingStorer) CommitUsingSpecificKey(treeID githash.Hash, targetRef, message string, key []byte) (githash.Hash, error) {
	id, err := c.Storer.CommitUsingSpecificKey(treeID, targetRef, message, key)
	if err != nil {
		c.failedCommits++
	}
	return id, err
}

var c17ProcLine = regexp.MustCompile(`(?m)^C17W op=(\d+) kind=(\w+) cf=(\d+) (ok|err=.*)$`)

func runC17ProcOnce(t *testing.T, s *kit.Session, c c17ProcCase) *kit.Failure {
	rsl.VerifResetCache()
	dir, err := os.MkdirTemp("", "c17proc")
	if err != nil {
		panic(err)
	}
	defer os.RemoveAll(dir)
	st := kit.NewGitStore(t, filepath.Join(dir, "repo"), false)
	pool, err := kit.BuildCommitPool(st)
	if err != nil {
		return &kit.Failure{Cause: "harness", Msg: "commit pool: " + err.Error()}
	}
	for i := 0; i < c.Prefix; i++ {
		if err := rsl.NewReferenceEntry("refs/heads/base", pool.IDs[i%4]).Commit(st, false); err != nil {
			return &kit.Failure{Cause: "harness", Msg: "prefix: " + err.Error()}
		}
	}
	before, err := kit.WalkChain(st, kit.RSLRef)
	if err != nil || len(before) != c.Prefix {
		return &kit.Failure{Cause: "harness", Msg: fmt.Sprintf("prefix chain: %d entries, %v", len(before), err)}
	}
	firstID := ""
	if len(before) > 0 {
		firstID = before[0].ID
	}
	var ids []string
	for _, id := range pool.IDs {
		ids = append(ids, id.String())
	}
	bin := os.Getenv("VERIF_BIN")
	if bin == "" {
		bin = os.Args[0]
	}
	outs := make([]string, c.Workers)
	barrier := filepath.Join(dir, "barrier")
	go func() {
		// release the workers once all of them are ready (or after 60 s, whatever they are doing)
		for i := 0; i < 600; i++ {
			ready := 0
			for w := 0; w < c.Workers; w++ {
				if _, err := os.Stat(fmt.Sprintf("%s.ready%d", barrier, w)); err == nil {
					ready++
				}
			}
			if ready == c.Workers {
				break
			}
			time.Sleep(100 * time.Millisecond)
		}
		_ = os.WriteFile(barrier+".go", nil, 0o644)
	}()
	var wg sync.WaitGroup
	for w := 0; w < c.Workers; w++ {
		wg.Add(1)
		go func(w int) {
			defer wg.Done()
			cmd := exec.Command(bin, "-test.run", "^TestC17Worker$", "-test.v")
			cmd.Env = append(os.Environ(), "VERIF_C17_DIR="+st.Dir, "VERIF_C17_WORKER="+strconv.Itoa(w), "VERIF_C17_OPS="+strconv.Itoa(c.Ops),
				"VERIF_C17_KIND="+c.Kinds[w%len(c.Kinds)], "VERIF_C17_IDS="+strings.Join(ids, ","), "VERIF_C17_FIRST="+firstID, "VERIF_C17_BARRIER="+barrier, "VERIF_OUT=", "VERIF_REPLAY=")
			var out bytes.Buffer
			cmd.Stdout, cmd.Stderr = &out, &out
			done := make(chan error, 1)
			if err := cmd.Start(); err != nil {
				outs[w] = "start: " + err.Error()
				return
			}
			go func() { done <- cmd.Wait() }()
			select {
			case <-done:
			case <-time.After(20 * time.Minute):
				_ = cmd.Process.Kill()
				<-done
			}
			outs[w] = out.String()
		}(w)
	}
	wg.Wait()
	type opRes struct {
		w, j int
		kind string
		ok   bool
		err  string
		cf   int // storage-level commits that failed during the operation
	}
	var results []opRes
	for w, out := range outs {
		if !strings.Contains(out, "C17W finished") || strings.Contains(out, "harness-error") {
			return &kit.Failure{Cause: "harness", Msg: fmt.Sprintf("worker %d did not finish: %s", w, out)}
		}
		ms := c17ProcLine.FindAllStringSubmatch(out, -1)
		if len(ms) != c.Ops {
			return &kit.Failure{Cause: "harness", Msg: fmt.Sprintf("worker %d reported %d of %d operations: %s", w, len(ms), c.Ops, out)}
		}
		for _, m := range ms {
			j, _ := strconv.Atoi(m[1])
			cf, _ := strconv.Atoi(m[3])
			results = append(results, opRes{w: w, j: j, kind: m[2], ok: m[4] == "ok", err: m[4], cf: cf})
		}
	}
	rsl.VerifResetCache()
	chain, err := kit.WalkChain(st, kit.RSLRef)
	history := func() string {
		var b strings.Builder
		for _, r := range results {
			fmt.Fprintf(&b, "  worker %d op %d %s (failed storage commits: %d): %s\n", r.w, r.j, r.kind, r.cf, r.err)
		}
		b.WriteString(" chain (oldest first):\n")
		for i, e := range chain {
			fmt.Fprintf(&b, "  %d %s number=%d parents=%d %s %s %s\n", i, e.ID[:10], e.Number, len(e.Parents), e.Kind, e.Ref, decodeAnnMsg(e.Text))
		}
		return b.String()
	}
	fail := func(cause, f string, a ...any) *kit.Failure {
		return &kit.Failure{Cause: cause, Msg: fmt.Sprintf("%s\n%s", fmt.Sprintf(f, a...), history())}
	}
	if err != nil {
		return fail("chain-unreadable", "%v", err)
	}
	if !kit.IsPrefix(kit.ChainIDs(before), kit.ChainIDs(chain)) {
		return fail("lost-prefix", "entries recorded before the concurrent phase are no longer in the log")
	}
	newEntries := chain[len(before):]
	count := map[string]int{}
	for _, e := range newEntries {
		switch e.Kind {
		case "annotation":
			count["ann:"+decodeAnnMsg(e.Text)]++
		case "reference", "propagation":
			count[e.Kind[:3]+":"+e.Ref]++
		}
	}
	nOK, nErr := 0, 0
	for _, r := range results {
		key := ""
		switch r.kind {
		case "ann":
			key = "ann:" + c17ProcAnnMsg(r.w, r.j)
		case "ref":
			key = "ref:" + c17ProcRefName(r.w, r.j)
		case "prop":
			key = "pro:" + c17ProcRefName(r.w, r.j)
		}
		n := count[key]
		if r.ok {
			nOK++
			if n != 1 {
				return fail("lost-or-duplicated-entry", "worker %d operation %d (%s) reported success but has %d entries in the log", r.w, r.j, r.kind, n)
			}
		} else {
			nErr++
			if n != 0 {
				return fail("failed-op-left-trace", "worker %d operation %d (%s) failed (%s) but left %d entries in the log", r.w, r.j, r.kind, r.err, n)
			}
		}
	}
	if len(newEntries) != nOK {
		return fail("phantom-entry", "%d operations reported success but the log grew by %d entries", nOK, len(newEntries))
	}
	dupKnown := false
	if defect := kit.CheckChain(chain); defect != "" {
		dupOnly := strings.Contains(defect, "but its parent is numbered") && c17StaleNumbersOnly(chain)
		if !(dupOnly && s.IsKnown("C17-duplicate-number-after-double-read")) {
			return fail("chain-invalid", "%s", defect)
		}
		// the listed finding is about a writer whose single storage commit succeeded
		// on top of a tip newer than the one it numbered its entry after. An entry
		// with a stale number written by an operation that first LOST the race for
		// the tip (its storage commit failed) and reported success all the same has
		// another cause.
		owner := map[string]opRes{}
		for _, r := range results {
			switch r.kind {
			case "ann":
				owner["ann:"+c17ProcAnnMsg(r.w, r.j)] = r
			case "ref":
				owner["ref:"+c17ProcRefName(r.w, r.j)] = r
			case "prop":
				owner["pro:"+c17ProcRefName(r.w, r.j)] = r
			}
		}
		for i := 1; i < len(chain); i++ {
			e := chain[i]
			if e.Number == chain[i-1].Number+1 {
				continue
			}
			key := ""
			switch e.Kind {
			case "annotation":
				key = "ann:" + decodeAnnMsg(e.Text)
			case "reference", "propagation":
				key = e.Kind[:3] + ":" + e.Ref
			}
			if r, ok := owner[key]; ok && r.cf > 0 {
				return fail("stale-number-after-lost-race", "entry %d (%s) carries a stale number and was written by worker %d operation %d, whose storage commit failed %d time(s) before the operation reported success", i, e.ID, r.w, r.j, r.cf)
			}
		}
		dupKnown = true
		s.KnownHit("C17-duplicate-number-after-double-read", c)
	} else {
		// a valid chain must be readable end to end by the real readers
		if _, _, err := rsl.GetFirstEntry(st); err != nil {
			return fail("readers-cannot-walk", "GetFirstEntry: %v", err)
		}
		if _, _, err := rsl.GetReferenceUpdaterEntriesInRange(st, kit.HashOf(chain[0].ID), kit.HashOf(chain[len(chain)-1].ID)); err != nil {
			return fail("readers-cannot-walk", "GetReferenceUpdaterEntriesInRange: %v", err)
		}
	}
	classes := []string{"process_mode", fmt.Sprintf("proc_workers_%d", c.Workers)}
	if c.Prefix == 0 {
		classes = append(classes, "proc_writers_create_the_log")
	}
	if nErr > 0 {
		classes = append(classes, "proc_some_op_failed")
	}
	if dupKnown {
		classes = append(classes, "proc_duplicate_number_known")
	}
	s.ClassN("proc_ops_succeeded", int64(nOK))
	s.ClassN("proc_ops_failed", int64(nErr))
	// distinct by the outcome (the schedule is not an input): which operations succeeded
	var sig strings.Builder
	for _, r := range results {
		if r.ok {
			sig.WriteByte('1')
		} else {
			sig.WriteByte('0')
		}
	}
	s.ObserveKey(fmt.Sprintf("proc|%+v|%s|%d", c, sig.String(), len(chain)), nErr > 0 || dupKnown || c.Workers >= 2, func() any {
		return map[string]any{"case": c, "succeeded": nOK, "failed": nErr, "chain_length": len(chain), "duplicate_numbers": dupKnown}
	}, classes...)
	return nil
}

func genC17Proc(maxWorkers, maxOps int, emptyLog bool) func(rt *rapid.T) c17ProcCase {
	return func(rt *rapid.T) c17ProcCase {
		c := genC17ProcN(rt, maxWorkers, maxOps)
		if emptyLog {
			c.Prefix = 0 // the writers race to create the log: only each worker's first operation is in the race
			if c.Workers < 3 {
				c.Workers = 3
			}
			c.Ops, c.Rounds = 2, 5
		}
		return c
	}
}

func genC17ProcN(rt *rapid.T, maxWorkers, maxOps int) c17ProcCase {
	c := c17ProcCase{Workers: rapid.IntRange(2, maxWorkers).Draw(rt, "workers"), Ops: rapid.IntRange(3, maxOps).Draw(rt, "ops"), Prefix: rapid.IntRange(0, 3).Draw(rt, "prefix")}
	for w := 0; w < c.Workers; w++ {
		c.Kinds = append(c.Kinds, rapid.SampledFrom([]string{"ref", "ref", "ann", "prop", "mixed", "mixed"}).Draw(rt, "kind"))
	}
	return c
}
