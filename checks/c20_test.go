//go:build verif

package verifchecks

import (
	"strconv"
	"regexp"
	"bytes"
	"context"
	"fmt"
	"os"
	"os/exec"
	"reflect"
	"sort"
	"strings"
	"testing"
	"time"

	"github.com/gittuf/gittuf/internal/luasandbox"
	luasandboxopts "github.com/gittuf/gittuf/internal/luasandbox/options/luasandbox"
	kit "github.com/gittuf/gittuf/internal/verifkit"
	lua "github.com/yuin/gopher-lua"
	"pgregory.net/rapid"
)

// ---------------------------------------------------------------------------
// C20 - Hook scripts stay inside the sandbox API and stop within their timeout
// ---------------------------------------------------------------------------

type c20Case struct {
	Kind   string `json:"kind"` // escape | mutate | return | timeout
	Script string `json:"script"`
	Shape  string `json:"shape,omitempty"`
}

// ---- classification of Go functions by code pointer ---------------------------------

var (
	c20Deny  map[uintptr]string // code pointer -> "lib.name" of forbidden primitives
	c20Allow map[uintptr]string
)

func fnPtr(f lua.LGFunction) uintptr { return reflect.ValueOf(f).Pointer() }

var c20DenyBase = map[string]bool{"dofile": true, "load": true, "loadfile": true, "loadstring": true, "require": true, "module": true,
	"getmetatable": true, "setmetatable": true, "rawget": true, "rawset": true, "rawequal": true, "collectgarbage": true}

func c20InitClassification() {
	if c20Deny != nil {
		return
	}
	c20Deny, c20Allow = map[uintptr]string{}, map[uintptr]string{}
	ref := lua.NewState() // unsandboxed reference state with every library opened
	defer ref.Close()
	var walkLib func(prefix string, t *lua.LTable, deny bool, denySet map[string]bool, depth int)
	walkLib = func(prefix string, t *lua.LTable, deny bool, denySet map[string]bool, depth int) {
		t.ForEach(func(k, v lua.LValue) {
			name := prefix + "." + k.String()
			switch x := v.(type) {
			case *lua.LFunction:
				if x.IsG {
					if deny || denySet[k.String()] {
						c20Deny[fnPtr(x.GFunction)] = name
					} else if _, isDeny := c20Deny[fnPtr(x.GFunction)]; !isDeny {
						c20Allow[fnPtr(x.GFunction)] = name
					}
				}
			case *lua.LTable:
				if depth < 2 && k.String() != "_G" && k.String() != "loaded" {
					walkLib(name, x, deny, nil, depth+1)
				}
			}
		})
	}
	for _, lib := range []string{"os", "io", "debug", "package", "channel"} {
		if t, ok := ref.GetGlobal(lib).(*lua.LTable); ok {
			walkLib(lib, t, true, nil, 0)
		}
	}
	if t, ok := ref.GetGlobal("string").(*lua.LTable); ok {
		walkLib("string", t, false, map[string]bool{"dump": true, "rep": true}, 0)
	}
	if t, ok := ref.GetGlobal("math").(*lua.LTable); ok {
		walkLib("math", t, false, map[string]bool{"randomseed": true}, 0)
	}
	for _, lib := range []string{"table", "coroutine"} {
		if t, ok := ref.GetGlobal(lib).(*lua.LTable); ok {
			walkLib(lib, t, false, nil, 0)
		}
	}
	// base functions live in the globals table
	ref.G.Global.ForEach(func(k, v lua.LValue) {
		if f, ok := v.(*lua.LFunction); ok && f.IsG {
			if c20DenyBase[k.String()] {
				c20Deny[fnPtr(f.GFunction)] = "base." + k.String()
			} else if _, isDeny := c20Deny[fnPtr(f.GFunction)]; !isDeny {
				c20Allow[fnPtr(f.GFunction)] = "base." + k.String()
			}
		}
	})
	// Go helpers that allow-listed functions carry as upvalues (the iterators
	// behind pairs / ipairs / gmatch) or return (coroutine.wrap's resumer)
	var helperOf func(name string, f *lua.LFunction)
	helperOf = func(name string, f *lua.LFunction) {
		for _, uv := range f.Upvalues {
			if uv == nil {
				continue
			}
			if h, ok := uv.Value().(*lua.LFunction); ok && h.IsG {
				if _, isDeny := c20Deny[fnPtr(h.GFunction)]; !isDeny {
					if _, seen := c20Allow[fnPtr(h.GFunction)]; !seen {
						c20Allow[fnPtr(h.GFunction)] = "helper of " + name
						helperOf(name, h)
					}
				}
			}
		}
	}
	collect := func(prefix string, t *lua.LTable) {
		t.ForEach(func(k, v lua.LValue) {
			if f, ok := v.(*lua.LFunction); ok && f.IsG {
				if _, allowed := c20Allow[fnPtr(f.GFunction)]; allowed {
					helperOf(prefix+"."+k.String(), f)
				}
			}
		})
	}
	collect("base", ref.G.Global)
	for _, lib := range []string{"string", "math", "table", "coroutine"} {
		if t, ok := ref.GetGlobal(lib).(*lua.LTable); ok {
			collect(lib, t)
		}
	}
	for _, src := range []string{"return (pairs({}))", "return (ipairs({}))", "return (string.gmatch('a','a'))", "return (coroutine.wrap(function() end))"} {
		if err := ref.DoString(src); err == nil {
			if f, ok := ref.Get(-1).(*lua.LFunction); ok && f.IsG {
				if _, isDeny := c20Deny[fnPtr(f.GFunction)]; !isDeny {
					c20Allow[fnPtr(f.GFunction)] = "value returned by " + src
					helperOf(src, f)
				}
			}
			ref.SetTop(0)
		}
	}
}

// reachability walks everything reachable from the sandbox's globals and the
// built-in type metatables and returns the forbidden / unclassified Go
// functions it meets (with the path they are reachable under).
func c20Reachability(env *luasandbox.LuaEnvironment) (bad []string, nFuncs, nTables int) {
	L := env.VerifState()
	apiPtrs := map[uintptr]string{}
	for _, api := range env.GetAPIs() {
		if g, ok := api.(*luasandbox.GoAPI); ok {
			apiPtrs[fnPtr(g.Implementation)] = g.Name
		}
	}
	seenT := map[*lua.LTable]bool{}
	seenF := map[*lua.LFunction]bool{}
	seenP := map[*lua.FunctionProto]bool{}
	var visit func(path string, v lua.LValue, viaMeta bool)
	var visitProto func(path string, p *lua.FunctionProto)
	visitProto = func(path string, p *lua.FunctionProto) {
		if p == nil || seenP[p] {
			return
		}
		seenP[p] = true
		for i, c := range p.Constants {
			visit(fmt.Sprintf("%s.const[%d]", path, i), c, false)
		}
		for i, sp := range p.FunctionPrototypes {
			visitProto(fmt.Sprintf("%s.proto[%d]", path, i), sp)
		}
	}
	visit = func(path string, v lua.LValue, viaMeta bool) {
		switch x := v.(type) {
		case *lua.LTable:
			if x == nil || seenT[x] {
				return
			}
			seenT[x] = true
			nTables++
			x.ForEach(func(k, val lua.LValue) {
				visit(path+"["+k.String()+"]", k, false)
				visit(path+"."+k.String(), val, viaMeta)
			})
			if mt, ok := x.Metatable.(*lua.LTable); ok {
				visit(path+".<metatable>", mt, true)
			}
		case *lua.LFunction:
			if x == nil || seenF[x] {
				return
			}
			seenF[x] = true
			nFuncs++
			if x.IsG {
				p := fnPtr(x.GFunction)
				if name, deny := c20Deny[p]; deny {
					bad = append(bad, fmt.Sprintf("%s is the forbidden primitive %s", path, name))
				} else if _, ok := c20Allow[p]; ok {
				} else if _, ok := apiPtrs[p]; ok {
				} else if viaMeta && strings.HasSuffix(path, ".__newindex") {
					// the sandbox's own write guard on a protected module table
				} else {
					bad = append(bad, fmt.Sprintf("%s is a Go function that is neither an allow-listed library function nor a registered API", path))
				}
			} else {
				visitProto(path, x.Proto)
			}
			if x.Env != nil {
				visit(path+".<env>", x.Env, false)
			}
			for i, uv := range x.Upvalues {
				if uv != nil {
					visit(fmt.Sprintf("%s.upvalue[%d]", path, i), uv.Value(), false)
				}
			}
		case *lua.LUserData:
			if x == nil {
				return
			}
			if x.Env != nil {
				visit(path+".<udenv>", x.Env, false)
			}
			if mt, ok := x.Metatable.(*lua.LTable); ok {
				visit(path+".<udmeta>", mt, true)
			}
		case *lua.LState:
			if x != nil && x != L {
				visit(path+".<threadenv>", x.Env, false)
			}
		}
	}
	visit("_G", L.G.Global, false)
	visit("<env>", L.Env, false)
	for _, sample := range []lua.LValue{lua.LString(""), lua.LNumber(0), lua.LTrue, lua.LNil} {
		if mt, ok := L.GetMetatable(sample).(*lua.LTable); ok {
			visit("<metatable of "+sample.Type().String()+">", mt, true)
		}
	}
	sort.Strings(bad)
	return bad, nFuncs, nTables
}

// libSnapshot fingerprints the library tables (key -> identity of the value).
func c20LibSnapshot(env *luasandbox.LuaEnvironment) string {
	L := env.VerifState()
	var out []string
	mt, _ := L.GetMetatable(lua.LString("")).(*lua.LTable)
	libs := map[string]*lua.LTable{}
	if mt != nil {
		if t, ok := mt.RawGetString("__index").(*lua.LTable); ok {
			libs["string(via metatable)"] = t
		}
	}
	for _, name := range []string{"string", "math", "table", "coroutine"} {
		if t, ok := L.G.Global.RawGetString(name).(*lua.LTable); ok {
			libs[name] = t
		} else {
			out = append(out, name+"=<not a table>")
		}
	}
	for name, t := range libs {
		t.ForEach(func(k, v lua.LValue) {
			id := v.String()
			if f, ok := v.(*lua.LFunction); ok && f.IsG {
				id = fmt.Sprintf("gofn:%x", fnPtr(f.GFunction))
			}
			out = append(out, name+"."+k.String()+"="+id)
		})
	}
	sort.Strings(out)
	return strings.Join(out, "\n")
}

// ---- script grammars ----------------------------------------------------------------

var c20Targets = []string{"os", "io", "debug", "package", "require", "dofile", "load", "loadfile", "loadstring", "module", "getmetatable", "setmetatable", "rawget", "rawset", "rawequal", "collectgarbage", "_G"}
var c20Members = []string{"string.dump", "string.rep", "math.randomseed", "os.execute", "os.getenv", "io.open", "debug.getinfo", "package.loadlib", "package.loaded"}

func luaStr(rt *rapid.T, s string) string {
	// the name, possibly built by concatenation / char codes so that no literal appears
	switch rapid.IntRange(0, 3).Draw(rt, "strform") {
	case 0:
		return fmt.Sprintf("%q", s)
	case 1:
		if len(s) > 1 {
			k := rapid.IntRange(1, len(s)-1).Draw(rt, "split")
			return fmt.Sprintf("(%q..%q)", s[:k], s[k:])
		}
		return fmt.Sprintf("%q", s)
	case 2:
		var codes []string
		for _, c := range []byte(s) {
			codes = append(codes, fmt.Sprint(int(c)))
		}
		return "string.char(" + strings.Join(codes, ",") + ")"
	default:
		return fmt.Sprintf("(%q):lower()", strings.ToUpper(s))
	}
}

func genEnvAccessor(rt *rapid.T, depth int) string {
	forms := []string{"getfenv(0)", "getfenv(1)", "getfenv()", "getfenv(print)", "getfenv(pcall)", "getfenv(strSplit)", "getfenv(matchRegex)", "getfenv(function() end)",
		"getfenv(coroutine.wrap(function() return getfenv(0) end))", "(coroutine.wrap(function() return getfenv(0) end))()", "getfenv(string.gmatch('a','a'))",
		"(function() local t = {} ; setfenv(1, t) ; return getfenv(0) end)()", "select(2, pcall(getfenv, 0))", "(unpack({getfenv(0)}))", "select(2, xpcall(function() return getfenv(0) end, print))",
		"getfenv(2)", "getfenv(3)"}
	f := rapid.SampledFrom(forms).Draw(rt, "envform")
	if depth > 0 && rapid.Bool().Draw(rt, "nest") {
		inner := genEnvAccessor(rt, depth-1)
		return fmt.Sprintf("(function() local e = %s ; if type(e) == 'table' and type(e.getfenv) == 'function' then return e.getfenv(0) end return e end)()", inner)
	}
	return f
}

func genEscape(rt *rapid.T) c20Case {
	shape := rapid.SampledFrom([]string{"env-index", "env-index", "env-scan", "member", "string-method", "direct", "laundered", "next-scan", "newproxy"}).Draw(rt, "shape")
	var expr string
	switch shape {
	case "env-index":
		expr = fmt.Sprintf("(%s)[%s]", genEnvAccessor(rt, 1), luaStr(rt, rapid.SampledFrom(c20Targets).Draw(rt, "target")))
	case "env-scan":
		expr = fmt.Sprintf("(function() for k, v in pairs(%s) do if k == %s then return v end end end)()", genEnvAccessor(rt, 1), luaStr(rt, rapid.SampledFrom(c20Targets).Draw(rt, "target")))
	case "next-scan":
		expr = fmt.Sprintf("(function() local e = %s ; local k, v = next(e) ; while k do if k == %s then return v end ; k, v = next(e, k) end end)()", genEnvAccessor(rt, 0), luaStr(rt, rapid.SampledFrom(c20Targets).Draw(rt, "target")))
	case "member":
		m := rapid.SampledFrom(c20Members).Draw(rt, "member")
		lib, name, _ := strings.Cut(m, ".")
		expr = fmt.Sprintf("(function() local l = (%s)[%s] ; if l == nil then return nil end ; return l[%s] end)()", genEnvAccessor(rt, 1), luaStr(rt, lib), luaStr(rt, name))
	case "string-method":
		name := rapid.SampledFrom([]string{"dump", "rep"}).Draw(rt, "smethod")
		expr = rapid.SampledFrom([]string{fmt.Sprintf("(\"\").%s", name), fmt.Sprintf("(\"x\")[%q]", name), fmt.Sprintf("string[%q]", name), fmt.Sprintf("(function() for k,v in pairs(string) do if k == %q then return v end end end)()", name)}).Draw(rt, "sform")
	case "direct":
		expr = rapid.SampledFrom(c20Targets).Draw(rt, "target")
	case "laundered":
		t := rapid.SampledFrom(c20Targets).Draw(rt, "target")
		expr = rapid.SampledFrom([]string{"select(1, %s)", "(unpack({%s}))", "select(2, pcall(function() return %s end))", "(function(...) return ... end)(%s)", "({%s})[1]"}).Draw(rt, "launder")
		expr = fmt.Sprintf(expr, t)
	case "newproxy":
		tg := luaStr(rt, rapid.SampledFrom(c20Targets).Draw(rt, "target"))
		expr = rapid.SampledFrom([]string{"(function() local p = newproxy(true) ; return getfenv(p)[%[1]s] end)()", "(function() local p = newproxy(true) ; local e = getfenv(p) ; for k, v in pairs(e) do if k == %[1]s then return v end end end)()", "(function() return getfenv(newproxy)[%[1]s] end)()"}).Draw(rt, "np")
		expr = fmt.Sprintf(expr, tg)
	}
	script := fmt.Sprintf("local ok, v = pcall(function() return %s end)\nif ok and v ~= nil then return 7 end\nreturn 0", expr)
	return c20Case{Kind: "escape", Script: script, Shape: shape}
}

func genMutate(rt *rapid.T) c20Case {
	lib := rapid.SampledFrom([]string{"string", "math", "table", "coroutine"}).Draw(rt, "lib")
	member := map[string][]string{"string": {"format", "len", "find", "rep", "newfield", "dump"}, "math": {"floor", "randomseed", "huge", "newfield"}, "table": {"insert", "concat", "newfield"}, "coroutine": {"wrap", "create", "newfield"}}[lib]
	m := rapid.SampledFrom(member).Draw(rt, "member")
	val := rapid.SampledFrom([]string{"nil", "1", "function() return 'pwned' end", "print"}).Draw(rt, "val")
	form := rapid.SampledFrom([]string{
		"%[1]s.%[2]s = %[3]s",
		"%[1]s[%[4]s] = %[3]s",
		"getfenv(0).%[1]s.%[2]s = %[3]s",
		"(getfenv(0)[%[5]s])[%[4]s] = %[3]s",
		"table.insert(%[1]s, %[3]s)",
		"pcall(function() %[1]s.%[2]s = %[3]s end)",
		"for k in pairs(%[1]s) do %[1]s[k] = %[3]s end",
		"local s = %[1]s ; s.%[2]s = %[3]s",
		"(\"\").%[2]s = %[3]s",
	}).Draw(rt, "form")
	stmt := fmt.Sprintf(form, lib, m, val, fmt.Sprintf("%q", m), fmt.Sprintf("%q", lib))
	script := fmt.Sprintf("pcall(function() %s end)\nreturn 0", stmt)
	return c20Case{Kind: "mutate", Script: script, Shape: lib + "." + m}
}

func genReturn(rt *rapid.T) c20Case {
	v := rapid.SampledFrom([]string{"{}", "'0'", "nil", "true", "function() end", "{0}", "", "hookParameters", "print", "0, {}", "coroutine.create(function() end)"}).Draw(rt, "retval")
	return c20Case{Kind: "return", Script: "return " + v, Shape: v}
}

var c20Loops = []struct{ shape, script string }{
	{"tight-loop", "while true do end"},
	{"counting-loop", "local i = 0 ; while true do i = i + 1 end"},
	{"repeat-loop", "repeat until false"},
	{"deep-recursion", "local function f(n) return 1 + f(n + 1) end ; return f(1)"},
	{"tail-recursion", "local function f(n) return f(n + 1) end ; return f(1)"},
	{"pcall-loop", "while true do pcall(function() error('x') end) end"},
	{"pcall-swallow", "local function spin() while true do end end ; while true do pcall(spin) end"},
	{"coroutine-pingpong", "local co = coroutine.wrap(function() while true do coroutine.yield(1) end end) ; while true do co() end"},
	{"string-building", "local s = '' ; while true do s = s .. 'x' ; if #s > 100000 then s = '' end end"},
	{"sort-costly", "local t = {} ; for i = 1, 3000 do t[i] = (i * 7919) % 3001 end ; while true do table.sort(t, function(a, b) for i = 1, 50 do end ; return a < b end) ; t[1] = t[1] + 1 end"},
	{"xpcall-loop", "while true do xpcall(function() error('x') end, function(e) return e end) end"},
	{"gsub-callback", "while true do string.gsub('aaaaaaaaaa', 'a', function(c) return c end) end"},
}

var c20PatternBlowups = []struct{ shape, script string }{
	{"pattern-find", "local s = string.rep and string.rep('a', 2000) or ('a'):gsub('a', function() return 'a' end) ; local t = {} ; for i = 1, 2048 do t[i] = 'a' end ; s = table.concat(t) ; return string.find(s, '.-.-.-.-.-.-.-.-x') and 0 or 0"},
	{"pattern-match", "local t = {} ; for i = 1, 2048 do t[i] = 'a' end ; local s = table.concat(t) ; return string.match(s, '(.-)(.-)(.-)(.-)(.-)(.-)b') and 0 or 0"},
	{"pattern-gsub", "local t = {} ; for i = 1, 1500 do t[i] = 'a' end ; local s = table.concat(t) ; string.gsub(s, '.-.-.-.-.-.-.-x', '') ; return 0"},
}

// TestC20Child runs one script with a 1 s timeout in a process of its own (so
// that wall and CPU time are those of this script alone).
func TestC20Child(t *testing.T) {
	script := os.Getenv("VERIF_C20_SCRIPT")
	if script == "" {
		t.Skip("only used as a child process of TestC20")
	}
	env, err := luasandbox.NewLuaEnvironment(context.Background(), nil, luasandboxopts.WithLuaTimeout(1))
	if err != nil {
		fmt.Println("C20CHILD harness-error", err)
		return
	}
	start := time.Now()
	code, rerr := env.RunScript(script, lua.LTable{})
	fmt.Printf("C20CHILD done code=%d err=%v elapsed=%.3f\n", code, rerr != nil, time.Since(start).Seconds())
}

type c20ChildResult struct {
	elapsed   time.Duration // time inside RunScript as measured by the child itself (0: not reported)
	wall, cpu time.Duration
	finished  bool
	normal    bool // script ended without error
	out       string
}

func c20RunChild(script string, hardLimit time.Duration) c20ChildResult {
	bin := os.Getenv("VERIF_BIN")
	if bin == "" {
		bin = os.Args[0]
	}
	cmd := exec.Command(bin, "-test.run", "^TestC20Child$", "-test.v")
	cmd.Env = append(os.Environ(), "VERIF_C20_SCRIPT="+script, "VERIF_OUT=", "VERIF_REPLAY=")
	var out bytes.Buffer
	cmd.Stdout, cmd.Stderr = &out, &out
	start := time.Now()
	if err := cmd.Start(); err != nil {
		return c20ChildResult{out: "start: " + err.Error()}
	}
	done := make(chan error, 1)
	go func() { done <- cmd.Wait() }()
	res := c20ChildResult{}
	select {
	case <-done:
		res.finished = true
	case <-time.After(hardLimit):
		_ = cmd.Process.Kill()
		<-done
	}
	res.wall = time.Since(start)
	if cmd.ProcessState != nil {
		res.cpu = cmd.ProcessState.UserTime() + cmd.ProcessState.SystemTime()
	}
	res.out = out.String()
	if m := regexp.MustCompile(`elapsed=([0-9.]+)`).FindStringSubmatch(res.out); m != nil {
		if f, err := strconv.ParseFloat(m[1], 64); err == nil {
			res.elapsed = time.Duration(f * float64(time.Second))
		}
	}
	res.normal = strings.Contains(res.out, "err=false")
	return res
}

func runC20Timeout(s *kit.Session, c c20Case) *kit.Failure {
	// process start-up (a few hundred ms of wall and CPU) is part of the measurement, hence the slack
	const wallLimit, cpuLimit = 3 * time.Second, 2500 * time.Millisecond
	for attempt := 0; attempt < 2; attempt++ {
		// the known tail-recursion overrun (interrupted on time, then many seconds of traceback
		// construction, longer on a busy machine) must be told apart from a script that is never
		// stopped: give it long enough to return
		hardLimit := 15 * time.Second
		if c.Shape == "tail-recursion" {
			hardLimit = 120 * time.Second
		}
		r := c20RunChild(c.Script, hardLimit)
		if strings.Contains(r.out, "harness-error") || (!r.finished && r.cpu == 0) {
			return &kit.Failure{Cause: "harness", Msg: "child process failed: " + r.out}
		}
		if r.finished && r.normal && !strings.HasPrefix(c.Shape, "pattern-") {
			return &kit.Failure{Cause: "harness", Msg: fmt.Sprintf("non-terminating script %q terminated normally: %s", c.Shape, r.out)}
		}
		// the child's own measurement of the time spent inside RunScript is what the
		// property is about; the process's wall and CPU time also contain start-up,
		// garbage collection threads and whatever a busy machine adds
		if r.wall <= wallLimit || (r.finished && r.elapsed > 0 && r.elapsed <= 2500*time.Millisecond) {
			s.Observe(c, true, "kind_timeout", "shape_"+c.Shape, "stopped_in_time")
			return nil
		}
		if r.cpu <= cpuLimit {
			// the script was stopped (it did not keep computing) but the machine was too busy to tell in time
			s.Inconclusive()
			s.Class("timeout_inconclusive_machine_busy")
			return nil
		}
		if strings.HasPrefix(c.Shape, "pattern-") && s.IsKnown("C20-timeout-not-enforced-inside-pattern-calls") {
			s.KnownHit("C20-timeout-not-enforced-inside-pattern-calls", map[string]any{"shape": c.Shape, "wall_s": r.wall.Seconds(), "cpu_s": r.cpu.Seconds(), "script": c.Script})
			s.Observe(c, true, "kind_timeout", "shape_"+c.Shape)
			return nil
		}
		if c.Shape == "tail-recursion" && r.finished && s.IsKnown("C20-timeout-overrun-after-tail-recursion") {
			s.KnownHit("C20-timeout-overrun-after-tail-recursion", map[string]any{"shape": c.Shape, "wall_s": r.wall.Seconds(), "cpu_s": r.cpu.Seconds(), "script": c.Script})
			s.Observe(c, true, "kind_timeout", "shape_"+c.Shape)
			return nil
		}
		if attempt == 1 {
			return &kit.Failure{Cause: "timeout-not-enforced", Msg: fmt.Sprintf("script %q with a 1 s timeout kept running: %.1f s inside RunScript by the child's own clock, process wall %.1f s, CPU %.1f s (finished=%v), twice in a row in a process of its own", c.Shape, r.elapsed.Seconds(), r.wall.Seconds(), r.cpu.Seconds(), r.finished)}
		}
	}
	return nil
}

func runC20(t *testing.T, s *kit.Session, c c20Case) *kit.Failure {
	c20InitClassification()
	if c.Kind == "timeout" {
		return runC20Timeout(s, c)
	}
	timeout := 100
	env, err := luasandbox.NewLuaEnvironment(context.Background(), nil, luasandboxopts.WithLuaTimeout(timeout))
	if err != nil {
		return &kit.Failure{Cause: "harness", Msg: "NewLuaEnvironment: " + err.Error()}
	}
	defer env.Cleanup()
	before := c20LibSnapshot(env)
	start := time.Now()
	type res struct {
		code int
		err  error
	}
	done := make(chan res, 1)
	go func() {
		defer func() {
			if r := recover(); r != nil {
				done <- res{code: -2, err: fmt.Errorf("panic: %v", r)}
			}
		}()
		code, err := env.RunScript(c.Script, lua.LTable{})
		done <- res{code, err}
	}()
	var r res
	hard := 12 * time.Second
	select {
	case r = <-done:
	case <-time.After(hard):
		// the script is still running after the hard stop; the goroutine is abandoned
		elapsed := time.Since(start)
		if c.Kind == "timeout" {
			return c20Overrun(s, c, elapsed, true)
		}
		return &kit.Failure{Cause: "hang", Msg: fmt.Sprintf("script did not return within %v", hard)}
	}
	elapsed := time.Since(start)
	switch c.Kind {
	case "escape":
		if r.err != nil {
			return &kit.Failure{Cause: "harness", Msg: fmt.Sprintf("escape script failed to run: %v", r.err)}
		}
		if r.code == 7 {
			return &kit.Failure{Cause: "sandbox-escape", Msg: "the expression evaluated to a non-nil value inside the sandbox:\n" + c.Script}
		}
	case "mutate":
		if after := c20LibSnapshot(env); after != before {
			// listed finding: the write guard (__newindex) only sees keys that do not
			// exist yet, and table.insert writes raw; members that exist can be
			// replaced or removed. A NEW key set by plain assignment is still a violation.
			d := diffLines(before, after)
			onlyExistingOrRaw := true
			for _, l := range strings.Split(d, "\n") {
				if strings.HasPrefix(l, "+ ") {
					key := strings.TrimPrefix(l, "+ ")
					key = key[:strings.Index(key, "=")]
					if !strings.Contains(before, key+"=") && !strings.Contains(c.Script, "table.insert") {
						onlyExistingOrRaw = false
					}
				}
			}
			if onlyExistingOrRaw && s.IsKnown("C20-existing-library-members-writable") {
				s.KnownHit("C20-existing-library-members-writable", c)
				s.Observe(c, true, "kind_"+c.Kind)
				return nil
			}
			return &kit.Failure{Cause: "library-table-modified", Msg: fmt.Sprintf("a script changed a library table:\n%s\n--- diff ---\n%s", c.Script, diffLines(before, after))}
		}
	case "return":
		if r.err == nil && r.code != 1 && !strings.HasPrefix(strings.TrimSpace(c.Shape), "0") {
			return &kit.Failure{Cause: "non-number-return", Msg: fmt.Sprintf("script %q returned exit code %d, expected 1 (failed)", c.Script, r.code)}
		}
	case "timeout":
		if r.err == nil && !strings.HasPrefix(c.Shape, "pattern-") {
			return &kit.Failure{Cause: "harness", Msg: fmt.Sprintf("non-terminating script %q terminated normally with %d", c.Shape, r.code)}
		}
		if elapsed > 2500*time.Millisecond {
			return c20Overrun(s, c, elapsed, false)
		}
	}
	// reachability invariant after every script (scripts may have changed the environment)
	bad, nf, nt := c20Reachability(env)
	if len(bad) > 0 {
		return &kit.Failure{Cause: "forbidden-reachable", Msg: fmt.Sprintf("after the script, reachable from the sandbox globals: %s", strings.Join(bad[:min(5, len(bad))], "; "))}
	}
	s.ClassN("reachable_functions_walked", int64(nf))
	s.ClassN("reachable_tables_walked", int64(nt))
	nontrivial := c.Kind == "timeout" || (c.Kind == "escape" && c.Shape != "direct") || c.Kind == "mutate"
	s.Observe(c, nontrivial, "kind_"+c.Kind, "shape_"+c.Shape)
	return nil
}

// c20Overrun handles a script that ran past timeout + slack: re-run it twice
// more; only a reproducible overrun counts, and an overrun spent inside a
// single pattern-matching library call is the listed finding.
func c20Overrun(s *kit.Session, c c20Case, elapsed time.Duration, hardStop bool) *kit.Failure {
	if strings.HasPrefix(c.Shape, "pattern-") && s.IsKnown("C20-timeout-not-enforced-inside-pattern-calls") {
		s.KnownHit("C20-timeout-not-enforced-inside-pattern-calls", map[string]any{"shape": c.Shape, "elapsed_s": elapsed.Seconds(), "script": c.Script})
		return nil
	}
	reproduced := 0
	for i := 0; i < 2; i++ {
		env, err := luasandbox.NewLuaEnvironment(context.Background(), nil, luasandboxopts.WithLuaTimeout(1))
		if err != nil {
			break
		}
		start := time.Now()
		done := make(chan struct{}, 1)
		go func() {
			defer func() { recover(); done <- struct{}{} }()
			_, _ = env.RunScript(c.Script, lua.LTable{})
		}()
		select {
		case <-done:
		case <-time.After(12 * time.Second):
		}
		if time.Since(start) > 2500*time.Millisecond {
			reproduced++
		}
		env.Cleanup()
	}
	if reproduced < 2 {
		s.Inconclusive()
		s.Class("timeout_overrun_not_reproduced")
		return nil
	}
	return &kit.Failure{Cause: "timeout-not-enforced", Msg: fmt.Sprintf("script %q with a 1 s timeout ran %.1f s (hard stop reached: %v), reproduced 3 of 3", c.Shape, elapsed.Seconds(), hardStop)}
}

func diffLines(a, b string) string {
	am := map[string]bool{}
	for _, l := range strings.Split(a, "\n") {
		am[l] = true
	}
	var out []string
	bm := map[string]bool{}
	for _, l := range strings.Split(b, "\n") {
		bm[l] = true
		if !am[l] {
			out = append(out, "+ "+l)
		}
	}
	for _, l := range strings.Split(a, "\n") {
		if !bm[l] {
			out = append(out, "- "+l)
		}
	}
	return strings.Join(out, "\n")
}

func TestC20(t *testing.T) {
	s := kit.Open(t, "C20")
	run := func(c c20Case) *kit.Failure { return runC20(t, s, c) }
	hooks := func(c c20HookCase) *kit.Failure { return runC20Hooks(t, s, c) }
	if rf := kit.Replay(t); rf != nil {
		if rf.Kind == "hooksel" {
			kit.DoReplay(s, t, rf, hooks)
			return
		}
		kit.DoReplay(s, t, rf, run)
		return
	}
	_ = os.Getenv
	s.SetRule("scripts from two grammars run through luasandbox.RunScript: (a) escape expressions composed from environment accessors (getfenv at levels 0-3 / of functions, coroutine wrappers, pcall/xpcall/select/unpack laundering, setfenv juggling, nesting) x targets (every forbidden global and forbidden library member, names as literals or built by concatenation / char codes / case folding) x access forms (index, pairs scan, next scan, string methods via values, newproxy); each must evaluate to nil or raise; (b) attempts to modify library tables (new and existing members, via globals, via getfenv(0), via values, table.insert, loops) - the library tables must be unchanged afterwards; (c) scripts returning non-numbers => exit code 1; (d) non-terminating scripts (12 loop / recursion / coroutine / pcall shapes and 3 pattern blow-ups) with a 1 s timeout must return within 2.5 s (overruns re-run twice, otherwise inconclusive); (e) hook selection on a real repository through experimental/gittuf: sequences of AddHook / RemoveHook (one or two stages, assigned to subsets of 4 keys, distinct return codes), AddRootKey, ApplyPolicy, DiscardPolicy and InvokeHooksForStage for every key, against a model of the applied hook table: the hooks run are exactly the applied pre-commit hooks assigned to the invoking principal (never staged-only, other-stage or other principals' hooks). After EVERY script a Go-side walk over everything reachable from the globals table, the thread environment and the built-in type metatables (tables, metatables, function environments, upvalues, prototype constants) classifies every Go function by code pointer against an unsandboxed reference state: forbidden primitives and unclassified Go functions are violations. Non-trivial: composed escape, mutation attempt or non-terminating script")
	kit.Campaign(s, t, "escape", "script", s.Budget(40_000, 1_500_000), genEscape, run)
	kit.Campaign(s, t, "mutate", "script", s.Budget(8_000, 200_000), genMutate, run)
	kit.Campaign(s, t, "return", "script", s.Budget(400, 4_000), genReturn, run)
	kit.Campaign(s, t, "hooksel", "hooksel", s.Budget(48, 1_200), genC20Hooks, hooks)
	// timeouts: every shape is run by some shard (enumeration), thorough repeats with variations
	kit.Enumerate(s, t, "timeout", "script", func(i int) (c20Case, bool) {
		all := append(append([]struct{ shape, script string }{}, c20Loops...), c20PatternBlowups...)
		reps := 1
		if s.Thorough() {
			reps = 8
		}
		if i >= len(all)*reps {
			return c20Case{}, false
		}
		x := all[i%len(all)]
		script := x.script
		if i >= len(all) {
			script = fmt.Sprintf("local pad%d = %d ; %s", i, i, script)
		}
		return c20Case{Kind: "timeout", Script: script, Shape: x.shape}, true
	}, run)
}
