//go:build verif

package verifchecks

import (
	"context"
	"fmt"
	"os"
	"path/filepath"
	"sort"
	"testing"

	gittuf "github.com/gittuf/gittuf/experimental/gittuf"
	rootopts "github.com/gittuf/gittuf/experimental/gittuf/options/root"
	trustpolicyopts "github.com/gittuf/gittuf/experimental/gittuf/options/trustpolicy"
	"github.com/gittuf/gittuf/internal/policy"
	policyopts "github.com/gittuf/gittuf/internal/policy/options/policy"
	"github.com/gittuf/gittuf/internal/signerverifier/ssh"
	"github.com/gittuf/gittuf/internal/tuf"
	kit "github.com/gittuf/gittuf/internal/verifkit"
	"github.com/gittuf/gittuf/pkg/rsl"
	"pgregory.net/rapid"
)

// C13, repository-API clause: rule names stay unique across all rule files,
// and edits that would break this are refused leaving the metadata unchanged.
// Real repository through experimental/gittuf.

type c13APIOp struct {
	Op   string `json:"op"`   // add | add-delegated | update | remove | reorder
	File int    `json:"file"` // 0 = primary rule file, 1 = the delegated file "team"
	Name string `json:"name"`
}

type c13APICase struct {
	Ops []c13APIOp `json:"ops"`
}

// names: a small pool and its decorated variants (surrounding blanks, case)
var c13APINames = []string{"alpha", "beta", "team", "alpha ", " alpha", "alpha\t", "Alpha", "beta ", "targets", "gittuf-x", "team "}

func genC13API(rt *rapid.T) c13APICase {
	c := c13APICase{}
	n := rapid.IntRange(3, 7).Draw(rt, "nops")
	for i := 0; i < n; i++ {
		c.Ops = append(c.Ops, c13APIOp{
			Op:   rapid.SampledFrom([]string{"add", "add", "add", "add", "remove", "update"}).Draw(rt, "op"),
			File: rapid.IntRange(0, 1).Draw(rt, "file"),
			Name: rapid.SampledFrom(c13APINames).Draw(rt, "name"),
		})
	}
	return c
}

func c13StagedRuleNames(ctx context.Context, g *kit.GitStore) (names []string, loadErr error) {
	state, err := policy.LoadCurrentState(ctx, g, policy.PolicyStagingRef, policyopts.BypassRSL())
	if err != nil {
		return nil, err
	}
	files := []string{policy.TargetsRoleName}
	for name := range state.Metadata.DelegationEnvelopes {
		files = append(files, name)
	}
	sort.Strings(files)
	for _, f := range files {
		if !state.HasTargetsRole(f) {
			continue
		}
		md, err := state.GetTargetsMetadata(f, false)
		if err != nil {
			return nil, err
		}
		for _, r := range md.GetRules() {
			if r.ID() != tuf.AllowRuleName {
				names = append(names, f+"/"+r.ID())
			}
		}
	}
	return names, nil
}

func runC13API(t *testing.T, s *kit.Session, c c13APICase) *kit.Failure {
	rsl.VerifResetCache()
	tmp, err := os.MkdirTemp("", "c13api-")
	if err != nil {
		panic(err)
	}
	defer os.RemoveAll(tmp)
	g := kit.NewGitStore(t, filepath.Join(tmp, "repo"), false)
	keyPath := filepath.Join(tmp, "key0")
	if err := os.WriteFile(keyPath, kit.Key(0).PEM, 0o600); err != nil {
		panic(err)
	}
	signer, err := ssh.NewSignerFromFile(keyPath)
	if err != nil {
		panic(err)
	}
	repo := gittuf.VerifWrap(g.Repository)
	ctx := context.Background()
	withEntry := trustpolicyopts.WithRSLEntry()
	harness := func(what string, err error) *kit.Failure { return &kit.Failure{Cause: "harness", Msg: what + ": " + err.Error()} }
	if err := repo.InitializeRoot(ctx, signer, false, rootopts.WithRSLEntry()); err != nil {
		return harness("InitializeRoot", err)
	}
	if err := repo.AddTopLevelTargetsKey(ctx, signer, kit.Key(0).V01(), false, withEntry); err != nil {
		return harness("AddTopLevelTargetsKey", err)
	}
	if err := repo.InitializeTargets(ctx, signer, policy.TargetsRoleName, false, withEntry); err != nil {
		return harness("InitializeTargets", err)
	}
	if err := repo.AddPrincipalToTargets(ctx, signer, policy.TargetsRoleName, []tuf.Principal{kit.Key(0).V01()}, false, withEntry); err != nil {
		return harness("AddPrincipalToTargets", err)
	}
	// a delegated rule file "team", reached through a rule of the same name
	if err := repo.AddDelegation(ctx, signer, policy.TargetsRoleName, "team", []string{kit.Key(0).KeyID}, []string{"git:refs/heads/team/*"}, 1, false, withEntry); err != nil {
		return harness("AddDelegation(team)", err)
	}
	if err := repo.InitializeTargets(ctx, signer, "team", false, withEntry); err != nil {
		return harness("InitializeTargets(team)", err)
	}
	if err := repo.AddPrincipalToTargets(ctx, signer, "team", []tuf.Principal{kit.Key(0).V01()}, false, withEntry); err != nil {
		return harness("AddPrincipalToTargets(team)", err)
	}
	files := []string{policy.TargetsRoleName, "team"}
	accepted, refused := 0, 0
	for i, op := range c.Ops {
		file := files[op.File]
		before, lerr := c13StagedRuleNames(ctx, g)
		if lerr != nil {
			return &kit.Failure{Cause: "staged-policy-unloadable", Msg: fmt.Sprintf("before op %d: %v", i, lerr)}
		}
		stagingBefore := refOrZero(g, policy.PolicyStagingRef)
		var opErr error
		switch op.Op {
		case "add":
			opErr = repo.AddDelegation(ctx, signer, file, op.Name, []string{kit.Key(0).KeyID}, []string{fmt.Sprintf("git:refs/heads/x%d", i)}, 1, false, withEntry)
		case "update":
			opErr = repo.UpdateDelegation(ctx, signer, file, op.Name, []string{kit.Key(0).KeyID}, []string{fmt.Sprintf("git:refs/heads/y%d", i)}, 1, false, withEntry)
		case "remove":
			opErr = repo.RemoveDelegation(ctx, signer, file, op.Name, false, withEntry)
		}
		rsl.VerifResetCache()
		fail := func(cause, f string, a ...any) *kit.Failure {
			return &kit.Failure{Cause: cause, Msg: fmt.Sprintf("op %d %+v (err=%v): %s", i, op, opErr, fmt.Sprintf(f, a...))}
		}
		after, lerr := c13StagedRuleNames(ctx, g)
		if lerr != nil {
			return fail("staged-policy-unloadable", "after the operation the staged policy no longer loads: %v", lerr)
		}
		// names (without the file) must be unique across all rule files
		seen := map[string]string{}
		for _, fn := range after {
			f, n := filepath.Split(fn)
			if other, dup := seen[n]; dup {
				return fail("duplicate-rule-name-through-api", "rule name %q exists in %q and in %q", n, other, f)
			}
			seen[n] = f
		}
		if opErr != nil {
			refused++
			if fmt.Sprint(before) != fmt.Sprint(after) || refOrZero(g, policy.PolicyStagingRef) != stagingBefore {
				return fail("refused-edit-changed-metadata", "rules before %v, after %v", before, after)
			}
			continue
		}
		accepted++
		if op.Op == "add" {
			// exactly the requested name appeared, in the requested file
			want := append(append([]string{}, before...), file+"/"+op.Name)
			sort.Strings(want)
			got := append([]string{}, after...)
			sort.Strings(got)
			if fmt.Sprint(want) != fmt.Sprint(got) {
				return fail("rule-recorded-under-another-name", "rules before %v, after %v", before, after)
			}
		}
	}
	// the staged policy must also survive being applied and reloaded
	if err := repo.ApplyPolicy(ctx, "", true, false); err == nil {
		if _, err := policy.LoadCurrentState(ctx, g, policy.PolicyRef); err != nil {
			return &kit.Failure{Cause: "published-state-rejected", Msg: "the applied policy no longer loads: " + err.Error()}
		}
	}
	classes := []string{"api_rule_names"}
	if refused > 0 {
		classes = append(classes, "api_edit_refused")
	}
	s.Observe(c, accepted >= 1 && refused >= 1, classes...)
	return nil
}

var _ = testing.Short
