//go:build verif

package verifchecks

import (
	"context"
	"fmt"
	"sort"
	"testing"

	"github.com/gittuf/gittuf/internal/policy"
	kit "github.com/gittuf/gittuf/internal/verifkit"
	"github.com/gittuf/gittuf/pkg/githash"
	"github.com/gittuf/gittuf/pkg/rsl"
	"pgregory.net/rapid"
)

// ---------------------------------------------------------------------------
// C01 - Verification accepts only histories authorised by the policy in force
// ---------------------------------------------------------------------------

type c01Case struct {
	World kit.World `json:"world"`
	// PropProtected marks worlds from the propagation-entry probe
	PropProtected bool `json:"prop_protected,omitempty"`
	// Gen records what the generator set out to build (labels only)
	Gen []string `json:"gen,omitempty"`
}

// checkWorldC01 compares every verification mode with the model on a built world.
func checkWorldC01(b *kit.Built, w *kit.World, propStrict bool) *kit.Failure {
	m := &kit.Model{W: w, Opts: kit.ModelOptions{PropagationUnverified: !propStrict}}
	for _, ref := range wgRefs {
		hasEntry := false
		first := -1
		for i, e := range w.Events {
			if (e.Kind == "push" || e.Kind == "prop") && e.Ref == ref {
				hasEntry = true
				if first < 0 {
					first = i
				}
			}
		}
		if !hasEntry {
			continue
		}
		// full verification
		got := verifyFull(b.Store, ref)
		v := m.VerifyFull(ref)
		if f := compareVerdict(b, v, got, "VerifyRefFull("+ref+")"); f != nil {
			return f
		}
		if v.Kind == "REJECT" && got.Err != nil && !isVerificationError(got.Err) {
			return &kit.Failure{Cause: "wrong-error-class", Msg: fmt.Sprintf("VerifyRefFull(%s) rejected with a non-verification error: %v (model: %s)", ref, got.Err, v.Why)}
		}
		// latest-only
		rsl.VerifResetCache()
		tip, err := policy.NewPolicyVerifier(b.Store).VerifyRef(context.Background(), ref)
		gl := worldResult{Err: err}
		if err == nil {
			gl.Tip = tip.String()
		}
		if f := compareVerdict(b, m.VerifyLatest(ref), gl, "VerifyRef("+ref+")"); f != nil {
			return f
		}
		// from the first entry: must equal full verification
		if w.Events[first].Kind == "push" {
			rsl.VerifResetCache()
			tip, err := policy.NewPolicyVerifier(b.Store).VerifyRefFromEntry(context.Background(), ref, mustID(b.Entry[first]))
			gf := worldResult{Err: err}
			if err == nil {
				gf.Tip = tip.String()
			}
			if f := compareVerdict(b, v, gf, "VerifyRefFromEntry("+ref+", first entry)"); f != nil {
				return f
			}
		}
	}
	return nil
}

func mustID(s string) githash.Hash {
	h, err := githash.NewHash(s)
	if err != nil {
		panic(err)
	}
	return h
}

func worldClasses(w *kit.World, extra map[string]bool) ([]string, bool) {
	m := &kit.Model{W: w}
	cl := map[string]bool{}
	for k := range extra {
		cl[k] = true
	}
	nontrivial := false
	protectedEntry, interesting := false, false
	for i, e := range w.Events {
		switch e.Kind {
		case "push", "prop":
			pol := -1
			for j := i - 1; j >= 0; j-- {
				if w.Events[j].Kind == "policy" {
					pol = w.Events[j].Policy
					break
				}
			}
			if pol >= 0 && len(kit.Consulted(&w.Policies[pol], "git:"+e.Ref)) > 0 {
				protectedEntry = true
				jv := m.Judge(i, pol)
				if !jv.Valid {
					interesting = true
					cl["has_violation"] = true
				}
			}
		case "approve", "annotate":
			interesting = true
		case "policy":
			if i > 0 {
				interesting = true
			}
		}
	}
	nontrivial = protectedEntry && interesting
	for _, ref := range wgRefs {
		v := m.VerifyFull(ref)
		cl["verdict_"+v.Kind] = true
	}
	out := make([]string, 0, len(cl))
	for k := range cl {
		out = append(out, k)
	}
	sort.Strings(out)
	return out, nontrivial
}

func runC01(t *testing.T, s *kit.Session, c c01Case) *kit.Failure {
	rsl.VerifResetCache()
	w := c.World
	st := kit.NewMemStore()
	b, err := kit.BuildWorld(st, &w)
	if err != nil {
		return &kit.Failure{Cause: "harness", Msg: "world does not build: " + err.Error()}
	}
	check := func(b *kit.Built) *kit.Failure { return checkWorldC01(b, &w, true) }
	f := check(b)
	if f != nil {
		if c.PropProtected && f.Cause == "false-accept" && s.IsKnown("C01-propagation-entry-unverified") {
			// classify: does the failure disappear when propagation entries are treated as the implementation does?
			if checkWorldC01(b, &w, false) == nil {
				s.KnownHit("C01-propagation-entry-unverified", c)
				return nil
			}
		}
		return confirmOnGit(t, &w, f, check)
	}
	genLabels := map[string]bool{}
	for _, g := range c.Gen {
		genLabels[g] = true
	}
	classes, nt := worldClasses(&w, genLabels)
	if c.PropProtected {
		classes = append(classes, "probe_propagation_on_protected")
	}
	s.Observe(c, nt, classes...)
	return nil
}

func TestC01(t *testing.T) {
	s := kit.Open(t, "C01")
	run := func(c c01Case) *kit.Failure { return runC01(t, s, c) }
	if rf := kit.Replay(t); rf != nil {
		kit.DoReplay(s, t, rf, run)
		return
	}
	s.SetRule("rapid, class-first construction {authorised-only, violation, recovery, mixed}: worlds of 1-4 validly signed policy states over developer keys 0..5 (rules for refs/heads/main and release with thresholds 1..3, 0-2 delegation levels, optional terminating flags) and logs of 1-24 events {push signed by an authorised / other / de-authorised / unknown / no key, with approvals for exactly this change when the threshold needs them; approval for this or another change; skip/non-skip annotation over 1-3 earlier pushes; policy change; entry for an unrelated ref; propagation entry}. Oracle: reference model of policy-in-force + delegation walk + credit + recovery, compared with VerifyRefFull (verdict and exact tip), VerifyRef and VerifyRefFromEntry(first entry) for three refs. Non-trivial: an entry on a protected ref plus (a violating signer, an approval, an annotation or a policy change)")
	opt := wgOptions{Delegation: true, PropProtected: true}
	kit.Campaign(s, t, "worlds", "world", s.Budget(12_000, 400_000), func(rt *rapid.T) c01Case {
		cl := map[string]bool{}
		w := genWorld(rt, opt, cl)
		return c01Case{World: w, Gen: sortedKeys(cl)}
	}, run)
	// probe / extension: propagation entries on protected references
	optP := wgOptions{Delegation: false, PropProtected: true, MaxEvents: 10}
	kit.Campaign(s, t, "propagation", "world", s.Budget(2_000, 40_000), func(rt *rapid.T) c01Case {
		cl := map[string]bool{}
		w := genWorld(rt, optP, cl)
		return c01Case{World: w, PropProtected: true, Gen: sortedKeys(cl)}
	}, run)
}
