//go:build verif

package verifchecks

import (
	"context"
	"fmt"
	"sort"
	"testing"

	"github.com/gittuf/gittuf/internal/policy"
	kit "github.com/gittuf/gittuf/internal/verifkit"
	"github.com/gittuf/gittuf/pkg/githash"
	"github.com/gittuf/gittuf/pkg/rsl"
	"pgregory.net/rapid"
)

// ---------------------------------------------------------------------------
// C01 - Verification accepts only histories authorised by the policy in force
// ---------------------------------------------------------------------------

type c01Case struct {
	World kit.World `json:"world"`
	// PropProtected marks worlds from the propagation-entry probe
	PropProtected bool `json:"prop_protected,omitempty"`
	// Gen records what the generator set out to build (labels only)
	Gen []string `json:"gen,omitempty"`
}

// checkWorldC01 compares every verification mode with the model on a built world.
func checkWorldC01(b *kit.Built, w *kit.World, propStrict bool) *kit.Failure {
	m := &kit.Model{W: w, Opts: kit.ModelOptions{PropagationUnverified: !propStrict}}
	for _, ref := range wgRefs {
		hasEntry := false
		first := -1
		for i, e := range w.Events {
			if (e.Kind == "push" || e.Kind == "prop") && e.Ref == ref {
				hasEntry = true
				if first < 0 {
					first = i
				}
			}
		}
		if !hasEntry {
			continue
		}
		// full verification
		got := verifyFull(b.Store, ref)
		v := m.VerifyFull(ref)
		if f := compareVerdict(b, v, got, "VerifyRefFull("+ref+")"); f != nil {
			return f
		}
		if v.Kind == "REJECT" && got.Err != nil && !isVerificationError(got.Err) {
			return &kit.Failure{Cause: "wrong-error-class", Msg: fmt.Sprintf("VerifyRefFull(%s) rejected with a non-verification error: %v (model: %s)", ref, got.Err, v.Why)}
		}
		// latest-only
		rsl.VerifResetCache()
		tip, err := policy.NewPolicyVerifier(b.Store).VerifyRef(context.Background(), ref)
		gl := worldResult{Err: err}
		if err == nil {
			gl.Tip = tip.String()
		}
		if f := compareVerdict(b, m.VerifyLatest(ref), gl, "VerifyRef("+ref+")"); f != nil {
			return f
		}
		// from the first entry: must equal full verification
		if w.Events[first].Kind == "push" {
			rsl.VerifResetCache()
			tip, err := policy.NewPolicyVerifier(b.Store).VerifyRefFromEntry(context.Background(), ref, mustID(b.Entry[first]))
			gf := worldResult{Err: err}
			if err == nil {
				gf.Tip = tip.String()
			}
			if f := compareVerdict(b, v, gf, "VerifyRefFromEntry("+ref+", first entry)"); f != nil {
				return f
			}
		}
	}
	return nil
}

func mustID(s string) githash.Hash {
	h, err := githash.NewHash(s)
	if err != nil {
		panic(err)
	}
	return h
}

func worldClasses(w *kit.World, extra map[string]bool) ([]string, bool) {
	m := &kit.Model{W: w}
	cl := map[string]bool{}
	for k := range extra {
		cl[k] = true
	}
	nontrivial := false
	protectedEntry, interesting := false, false
	for i, e := range w.Events {
		switch e.Kind {
		case "push", "prop":
			pol := -1
			for j := i - 1; j >= 0; j-- {
				if w.Events[j].Kind == "policy" {
					pol = w.Events[j].Policy
					break
				}
			}
			if pol >= 0 && len(kit.Consulted(&w.Policies[pol], "git:"+e.Ref)) > 0 {
				protectedEntry = true
				jv := m.Judge(i, pol)
				if !jv.Valid {
					interesting = true
					cl["has_violation"] = true
				}
			}
		case "approve", "annotate":
			interesting = true
		case "policy":
			if i > 0 {
				interesting = true
			}
		}
	}
	nontrivial = protectedEntry && interesting
	for _, ref := range wgRefs {
		v := m.VerifyFull(ref)
		cl["verdict_"+v.Kind] = true
	}
	out := make([]string, 0, len(cl))
	for k := range cl {
		out = append(out, k)
	}
	sort.Strings(out)
	return out, nontrivial
}

func runC01(t *testing.T, s *kit.Session, c c01Case) *kit.Failure {
	rsl.VerifResetCache()
	w := c.World
	st := kit.NewMemStore()
	b, err := kit.BuildWorld(st, &w)
	if err != nil {
		return &kit.Failure{Cause: "harness", Msg: "world does not build: " + err.Error()}
	}
	check := func(b *kit.Built) *kit.Failure { return checkWorldC01(b, &w, true) }
	f := check(b)
	if f != nil {
		if c.PropProtected && f.Cause == "false-accept" && s.IsKnown("C01-propagation-entry-unverified") {
			// classify: does the failure disappear when propagation entries are treated as the implementation does?
			if checkWorldC01(b, &w, false) == nil {
				s.KnownHit("C01-propagation-entry-unverified", c)
				return nil
			}
		}
		return confirmOnGit(t, &w, f, check)
	}
	genLabels := map[string]bool{}
	for _, g := range c.Gen {
		genLabels[g] = true
	}
	classes, nt := worldClasses(&w, genLabels)
	if c.PropProtected {
		classes = append(classes, "probe_propagation_on_protected")
	}
	s.Observe(c, nt, classes...)
	return nil
}


// ---- bounded-exhaustive enumeration of short logs -------------------------------

// c01Policies are the two fixed policy states of the enumeration: P0 protects
// main with {key0, key1} threshold 1; P1 protects it with {key1, key2}
// threshold 2. Key 0 is de-authorised by the change, key 2 newly authorised,
// key 1 stays. refs/heads/scratch is unprotected.
func c01Policies() []kit.PolicySpec {
	mk := func(devs []int, thr int) kit.PolicySpec {
		root := keyPrin(wgRootKey)
		f := &kit.FileSpec{Signers: []int{wgRootKey}}
		for _, d := range devs {
			f.Principals = append(f.Principals, keyPrin(d))
		}
		f.Rules = []kit.RuleSpec{{Name: "protect-main", Patterns: []string{"git:refs/heads/main"}, Principals: indices(len(devs)), Threshold: thr}}
		return kit.PolicySpec{RootPrincipals: []kit.PrincipalSpec{root}, RootThreshold: 1, TargetsKeys: []kit.PrincipalSpec{root}, TargetsThreshold: 1, RootSigners: []int{wgRootKey}, Targets: f}
	}
	return []kit.PolicySpec{mk([]int{0, 1}, 1), mk([]int{1, 2}, 2)}
}

const c01Alphabet = 19

// c01Symbol appends the event(s) of alphabet symbol sym to the world.
//
//	0..9   push to main: signer {key0, key1, key2, unknown key, none} x tree {0, 1}
//	10..12 approval for (main, current state, tree): by key1 for tree 0, by key2 for tree 0, by key1 for tree 1
//	13..15 annotation: skip the latest push to main, skip the first push to main, non-skip note on the latest push
//	16     policy change P0 -> P1 (once; a second occurrence re-applies P1's successor-free state and is dropped)
//	17     entry for an unrelated reference
//	18     unsigned push to the unprotected refs/heads/scratch
func c01Symbol(w *kit.World, sym int, pol *int) bool {
	var pushes []int
	for i, e := range w.Events {
		if e.Kind == "push" && e.Ref == "refs/heads/main" {
			pushes = append(pushes, i)
		}
	}
	switch {
	case sym < 10:
		signer := []int{0, 1, 2, wgUnknownKey, -1}[sym/2]
		w.Events = append(w.Events, kit.Event{Kind: "push", Ref: "refs/heads/main", Tree: sym % 2, Signer: signer})
	case sym < 13:
		signer, tree := []int{1, 2, 1}[sym-10], []int{0, 0, 1}[sym-10]
		c := kit.Change{Ref: "refs/heads/main", From: -2, To: tree}
		w.Events = append(w.Events, kit.Event{Kind: "approve", Signer: -1, Items: []kit.AttItem{{Kind: "auth", Stmt: c, Path: c, Signers: []int{signer}}}})
	case sym < 16:
		if len(pushes) == 0 {
			return false
		}
		t := pushes[len(pushes)-1]
		if sym == 14 {
			t = pushes[0]
		}
		w.Events = append(w.Events, kit.Event{Kind: "annotate", Targets: []int{t}, Skip: sym != 15, Signer: -1})
	case sym == 16:
		if *pol != 0 {
			return false
		}
		*pol = 1
		w.Events = append(w.Events, kit.Event{Kind: "policy", Policy: 1, Signer: -1})
	case sym == 17:
		w.Events = append(w.Events, kit.Event{Kind: "other", Ref: "refs/heads/unrelated", Tree: 2, Signer: -1})
	default:
		w.Events = append(w.Events, kit.Event{Kind: "push", Ref: "refs/heads/scratch", Tree: 3, Signer: -1})
	}
	return true
}

// c01EnumCase decodes index i into a log of exactly L symbols (after the
// initial policy). Words containing a symbol that is not enabled at its
// position (annotation without a push, second policy change) are reported as
// skipped - the same log is reached by a shorter word.
func c01EnumCase(L, i int) (c c01Case, ok, skip bool) {
	total := 1
	for k := 0; k < L; k++ {
		total *= c01Alphabet
	}
	if i >= total {
		return c, false, false
	}
	w := kit.World{Policies: c01Policies()}
	w.Events = append(w.Events, kit.Event{Kind: "policy", Policy: 0, Signer: -1})
	pol := 0
	for k := 0; k < L; k++ {
		if !c01Symbol(&w, i%c01Alphabet, &pol) {
			return c, true, true
		}
		i /= c01Alphabet
	}
	w.Normalise()
	return c01Case{World: w, Gen: []string{"enumerated"}}, true, false
}

func TestC01(t *testing.T) {
	s := kit.Open(t, "C01")
	run := func(c c01Case) *kit.Failure { return runC01(t, s, c) }
	if rf := kit.Replay(t); rf != nil {
		kit.DoReplay(s, t, rf, run)
		return
	}
	s.SetRule("rapid, class-first construction {authorised-only, violation, recovery, mixed}: worlds of 1-4 validly signed policy states over developer keys 0..5, some developers being persons with two keys (rules for refs/heads/main and release with thresholds 1..3, 0-2 delegation levels, optional terminating flags) and logs of 1-24 events {push signed by an authorised / other / de-authorised / unknown / no key, with approvals for exactly this change when the threshold needs them; approval for this or another change; skip/non-skip annotation over 1-3 earlier pushes; policy change; entry for an unrelated ref; propagation entry}. Plus a bounded-exhaustive enumeration of short logs (see enumeration_bound). Oracle: reference model of policy-in-force + delegation walk + credit + recovery, compared with VerifyRefFull (verdict and exact tip), VerifyRef and VerifyRefFromEntry(first entry) for three refs. Non-trivial: an entry on a protected ref plus (a violating signer, an approval, an annotation or a policy change)")
	opt := wgOptions{Delegation: true, PropProtected: true, TwoKeyPersons: true}
	kit.Campaign(s, t, "worlds", "world", s.Budget(12_000, 400_000), func(rt *rapid.T) c01Case {
		cl := map[string]bool{}
		w := genWorld(rt, opt, cl)
		return c01Case{World: w, Gen: sortedKeys(cl)}
	}, run)
	// bounded-exhaustive: every log of <= L symbols over the 19-symbol alphabet
	maxL := 3
	if s.Thorough() {
		maxL = 4
	}
	exh := true
	for L := 1; L <= maxL && exh; L++ {
		L := L
		exh = kit.Enumerate(s, t, fmt.Sprintf("enum-L%d", L), "world", func(i int) (c01Case, bool) {
			for {
				c, ok, skip := c01EnumCase(L, i)
				if !ok {
					return c, false
				}
				if !skip {
					return c, true
				}
				// a disabled word: hand back an empty marker that run() ignores
				return c01Case{Gen: []string{"disabled-word"}}, true
			}
		}, func(c c01Case) *kit.Failure {
			if len(c.World.Events) == 0 {
				return nil
			}
			return run(c)
		})
	}
	s.SetExhaustive(exh)
	s.SetExtra("enumeration_bound", fmt.Sprintf("every log of 1..%d events after the initial policy over a 19-symbol alphabet: push to protected main by {key0, key1, key2, unknown key, nobody} x tree {0,1}; authorization for (main, current state, tree) by key1/tree0, key2/tree0, key1/tree1; skip annotation on the latest / the first push, plain annotation on the latest push; policy change P0({key0,key1} threshold 1) -> P1({key1,key2} threshold 2); entry for an unrelated ref; unsigned push to unprotected scratch", maxL))
	// probe / extension: propagation entries on protected references
	optP := wgOptions{Delegation: false, PropProtected: true, MaxEvents: 10}
	kit.Campaign(s, t, "propagation", "world", s.Budget(2_000, 40_000), func(rt *rapid.T) c01Case {
		cl := map[string]bool{}
		w := genWorld(rt, optP, cl)
		return c01Case{World: w, PropProtected: true, Gen: sortedKeys(cl)}
	}, run)
}
