//go:build verif

package verifchecks

import (
	"context"
	"errors"
	"fmt"
	"sort"
	"strings"
	"testing"

	"github.com/gittuf/gittuf/internal/attestations"
	"github.com/gittuf/gittuf/internal/cache"
	"github.com/gittuf/gittuf/internal/policy"
	kit "github.com/gittuf/gittuf/internal/verifkit"
	"github.com/gittuf/gittuf/pkg/githash"
	"github.com/gittuf/gittuf/pkg/gitstore"
	"github.com/gittuf/gittuf/pkg/rsl"
	"pgregory.net/rapid"
)

// ---------------------------------------------------------------------------
// C16 - A storage failure at any step leaves log valid and managed refs consistent
// ---------------------------------------------------------------------------

type c16Case struct {
	Start string `json:"start"` // empty | first | established | policy-ahead | diverged
	Op    string `json:"op"`    // ref | refkey | ann | stage | apply | attest | reconcile
	Ref   string `json:"ref,omitempty"`
	Tree  int    `json:"tree,omitempty"`
	Skip  bool   `json:"skip,omitempty"`
	Spec  int    `json:"spec,omitempty"`
	Msg   string `json:"msg,omitempty"`
}

var c16Managed = []string{policy.PolicyRef, policy.PolicyStagingRef, attestations.Ref}

// c16Base builds the starting state on a fresh memstore.
func c16Base(start string) (*kit.MemStore, *kit.CommitPool, error) {
	st := kit.NewMemStore()
	pool, err := kit.BuildCommitPool(st)
	if err != nil {
		return nil, nil, err
	}
	switch start {
	case "empty":
	case "first":
		// a log exists (one entry for an ordinary ref) but no policy / attestations yet
		if err := rsl.NewReferenceEntry("refs/heads/main", pool.IDs[0]).Commit(st, false); err != nil {
			return nil, nil, err
		}
	case "established", "policy-ahead", "diverged":
		if err := kit.StageAndApply(st, c03Spec(0)); err != nil {
			return nil, nil, err
		}
		if err := rsl.NewReferenceEntry("refs/heads/main", pool.IDs[0]).CommitUsingSpecificKey(st, kit.Key(1).PEM); err != nil {
			return nil, nil, err
		}
		att, err := attestations.LoadCurrentAttestations(st)
		if err != nil {
			return nil, nil, err
		}
		if err := att.Commit(st, "attest", true, false); err != nil {
			return nil, nil, err
		}
		if err := rsl.NewReferenceEntry("refs/heads/main", pool.IDs[1]).CommitUsingSpecificKey(st, kit.Key(1).PEM); err != nil {
			return nil, nil, err
		}
		if start == "diverged" {
			// an unapplied change is staged ...
			md, err := kit.BuildStateMetadata(c03Spec(1))
			if err != nil {
				return nil, nil, err
			}
			if err := (&policy.State{Metadata: md}).Commit(st, "staged change", true, false); err != nil {
				return nil, nil, err
			}
		}
		if start == "policy-ahead" || start == "diverged" {
			// ... and a change lands directly on the policy ref (as propagation from a controller does)
			tip, err := st.GetReference(policy.PolicyRef)
			if err != nil {
				return nil, nil, err
			}
			tree, err := st.GetCommitTreeID(tip)
			if err != nil {
				return nil, nil, err
			}
			commit, err := st.Commit(tree, policy.PolicyRef, "propagated\n", false)
			if err != nil {
				return nil, nil, err
			}
			if err := rsl.NewPropagationEntry(policy.PolicyRef, commit, "https://controller.example/repo", commit).Commit(st, false); err != nil {
				return nil, nil, err
			}
		}
	default:
		return nil, nil, fmt.Errorf("unknown start %q", start)
	}
	return st, pool, nil
}

// c16Run performs the operation on st.
func c16Run(st gitstore.Storer, pool *kit.CommitPool, c c16Case, base *kit.MemStore) error {
	switch c.Op {
	case "ref":
		return rsl.NewReferenceEntry(c.Ref, pool.IDs[c.Tree%len(pool.IDs)]).Commit(st, false)
	case "refkey":
		return rsl.NewReferenceEntry(c.Ref, pool.IDs[c.Tree%len(pool.IDs)]).CommitUsingSpecificKey(st, kit.Key(1).PEM)
	case "ann":
		tip, err := base.GetReference(rsl.Ref)
		if err != nil {
			return fmt.Errorf("harness: no entry to annotate: %w", err)
		}
		return rsl.NewAnnotationEntry([]githash.Hash{tip}, c.Skip, c.Msg).Commit(st, false)
	case "stage":
		md, err := kit.BuildStateMetadata(c03Spec(c.Spec))
		if err != nil {
			return err
		}
		return (&policy.State{Metadata: md}).Commit(st, "stage", true, false)
	case "apply":
		return policy.Apply(context.Background(), st, false)
	case "attest":
		att, err := attestations.LoadCurrentAttestations(st)
		if err != nil {
			return err
		}
		return att.Commit(st, "attest", true, false)
	case "reconcile":
		return policy.ReconcileStaging(st, false)
	}
	return fmt.Errorf("unknown op %q", c.Op)
}

// abstractState: the log as (kind, ref, tree of target) and the managed refs' trees.
func c16Abstract(st *kit.MemStore) (string, error) {
	chain, err := kit.WalkChain(st, kit.RSLRef)
	if err != nil {
		return "", err
	}
	var b strings.Builder
	for _, e := range chain {
		tree := ""
		if e.Target != "" {
			if t, err := st.GetCommitTreeID(kit.HashOf(e.Target)); err == nil {
				tree = t.String()
			} else {
				tree = "target:" + e.Target
			}
		}
		fmt.Fprintf(&b, "%s|%s|%s|%v|%v\n", e.Kind, e.Ref, tree, e.Skip, len(e.IDs))
	}
	for _, ref := range c16Managed {
		tip, err := st.GetReference(ref)
		if err != nil {
			fmt.Fprintf(&b, "%s=absent\n", ref)
			continue
		}
		t, err := st.GetCommitTreeID(tip)
		if err != nil {
			return "", err
		}
		fmt.Fprintf(&b, "%s=%s\n", ref, t.String())
	}
	return b.String(), nil
}

// managedConsistent: each managed ref is unchanged or equals the target of its latest log entry.
func c16ManagedConsistent(before, after *kit.MemStore) string {
	chain, err := kit.WalkChain(after, kit.RSLRef)
	if err != nil {
		return "log unreadable: " + err.Error()
	}
	for _, ref := range c16Managed {
		b, berr := before.GetReference(ref)
		a, aerr := after.GetReference(ref)
		if (berr != nil) == (aerr != nil) && (aerr != nil || a.Equal(b)) {
			continue // unchanged
		}
		latest := ""
		for _, e := range chain {
			if e.Ref == ref && (e.Kind == "reference" || e.Kind == "propagation") {
				latest = e.Target
			}
		}
		if aerr != nil {
			return fmt.Sprintf("%s was deleted", ref)
		}
		if latest != a.String() {
			return fmt.Sprintf("%s moved to %s but its latest log entry records %q", ref, a.String(), latest)
		}
	}
	return ""
}

func c16Verdicts(st *kit.MemStore) string {
	var out []string
	for _, ref := range []string{"refs/heads/main"} {
		rsl.VerifResetCache()
		tip, err := policy.NewPolicyVerifier(st).VerifyRefFull(context.Background(), ref)
		if err != nil {
			out = append(out, ref+"=reject")
		} else {
			out = append(out, ref+"="+tip.String())
		}
	}
	sort.Strings(out)
	return strings.Join(out, ";")
}

type c16Known struct {
	id   string
	hits int
}

func runC16(t *testing.T, s *kit.Session, c c16Case) *kit.Failure {
	rsl.VerifResetCache()
	base, pool, err := c16Base(c.Start)
	if err != nil {
		return &kit.Failure{Cause: "harness", Msg: "starting state: " + err.Error()}
	}
	// clean run: count the calls and learn the uninterrupted outcome
	clean := base.Snapshot()
	counter := kit.NewFaultStore(clean)
	rsl.VerifResetCache()
	cleanErr := c16Run(counter, pool, c, base)
	calls := counter.Calls()
	details := counter.Details()
	if cleanErr != nil {
		// the operation is refused in this state even without faults: nothing to enumerate
		if strings.HasPrefix(cleanErr.Error(), "harness:") {
			s.Class("op_not_applicable")
			return nil
		}
		// a refused operation must not have changed anything
		if d := c16ManagedConsistent(base, clean); d != "" {
			return &kit.Failure{Cause: "refused-op-changed-refs", Msg: fmt.Sprintf("%+v refused (%v) but %s", c, cleanErr, d)}
		}
		s.Class("op_refused_in_state")
		return nil
	}
	cleanAbs, err := c16Abstract(clean)
	if err != nil {
		return &kit.Failure{Cause: "harness", Msg: err.Error()}
	}
	beforeChain, _ := kit.WalkChain(base, kit.RSLRef)
	afterChain, _ := kit.WalkChain(clean, kit.RSLRef)
	verdictBefore, verdictAfter := c16Verdicts(base), c16Verdicts(clean)
	firstWrite := len(calls) + 1
	for i, name := range calls {
		if kit.IsWrite(name) {
			firstWrite = i + 1
			break
		}
	}
	for k := 1; k <= len(calls); k++ {
		// ---- fault: the k-th call returns an error ------------------------------
		{
			work := base.Snapshot()
			fs := kit.NewFaultStore(work)
			fs.FailAt = k
			rsl.VerifResetCache()
			opErr := c16Run(fs, pool, c, base)
			fail := func(cause, f string, a ...any) *kit.Failure {
				return &kit.Failure{Cause: cause, Msg: fmt.Sprintf("%+v with call %d/%d (%s) failing (op err=%v): %s", c, k, len(calls), calls[k-1], opErr, fmt.Sprintf(f, a...))}
			}
			if !fs.Injected {
				return fail("harness", "fault point was not reached (non-deterministic call sequence)")
			}
			if opErr == nil {
				// listed finding: a failure to read the optional local cache ref is
				// tolerated (the operation proceeds without the cache); it must then
				// be indistinguishable from an uninterrupted run
				if details[k-1] == "GetReference("+cache.Ref+")" && s.IsKnown("C16-cache-ref-read-failure-tolerated") {
					abs, err := c16Abstract(work)
					if err != nil || abs != cleanAbs {
						return fail("fault-swallowed", "the failed read of the cache ref was tolerated but the result differs from an uninterrupted run")
					}
					s.KnownHit("C16-cache-ref-read-failure-tolerated", map[string]any{"case": c, "k": k, "call": details[k-1]})
					continue
				}
				return fail("fault-swallowed", "the operation reported success although a storage call failed")
			}
			rsl.VerifResetCache()
			chain, err := kit.WalkChain(work, kit.RSLRef)
			if err != nil {
				return fail("chain-unreadable", "%v", err)
			}
			if d := kit.CheckChain(chain); d != "" {
				return fail("chain-invalid", "%s", d)
			}
			ids := kit.ChainIDs(chain)
			if !kit.IsPrefix(kit.ChainIDs(beforeChain), ids) {
				return fail("not-append-only", "log lost entries")
			}
			if len(ids) > len(afterChain) {
				return fail("extra-entries", "log has %d entries; before %d, uninterrupted run %d", len(ids), len(beforeChain), len(afterChain))
			}
			if d := c16ManagedConsistent(base, work); d != "" {
				cause := "managed-ref-inconsistent"
				// classification of listed findings
				for _, kf := range []string{"C16-first-commit-not-rolled-back", "C16-reconcile-staging-no-rollback"} {
					if s.IsKnown(kf) && c16MatchesKnown(kf, c, base, d) {
						s.KnownHit(kf, map[string]any{"case": c, "k": k, "call": calls[k-1], "detail": d})
						cause = ""
					}
				}
				if cause != "" {
					return fail(cause, "%s", d)
				}
				continue
			}
			// repeat without the fault: must succeed and reach the uninterrupted state
			rsl.VerifResetCache()
			if err := c16Run(work, pool, c, base); err != nil {
				return fail("retry-fails", "repeating the operation after the fault cleared fails: %v", err)
			}
			abs, err := c16Abstract(work)
			if err != nil {
				return fail("harness", "%v", err)
			}
			if abs != cleanAbs {
				// listed finding: reconciling diverged policy/staging is two recorded
				// steps (reset staging to policy, re-commit the staged state); a fault
				// between them loses the staged state for good
				if (c.Op == "reconcile" || c.Op == "apply") && c.Start == "diverged" && len(ids) > len(beforeChain) && s.IsKnown("C16-reconcile-diverged-not-atomic") {
					s.KnownHit("C16-reconcile-diverged-not-atomic", map[string]any{"case": c, "k": k, "call": details[k-1]})
					continue
				}
				return fail("retry-differs", "state after fault+retry differs from an uninterrupted run:\n--- uninterrupted\n%s--- fault+retry\n%s", cleanAbs, abs)
			}
		}
		// ---- crash: the process stops dead right after the k-th call ---------------
		{
			work := base.Snapshot()
			fs := kit.NewFaultStore(work)
			fs.CrashAt = k
			rsl.VerifResetCache()
			_, crashed := kit.RunToCrash(func() error { return c16Run(fs, pool, c, base) })
			fail := func(cause, f string, a ...any) *kit.Failure {
				return &kit.Failure{Cause: cause, Msg: fmt.Sprintf("%+v stopped dead after call %d/%d (%s): %s", c, k, len(calls), calls[k-1], fmt.Sprintf(f, a...))}
			}
			if !crashed && k < len(calls) {
				return fail("harness", "crash point was not reached")
			}
			rsl.VerifResetCache()
			chain, err := kit.WalkChain(work, kit.RSLRef)
			if err != nil {
				return fail("chain-unreadable", "%v", err)
			}
			if d := kit.CheckChain(chain); d != "" {
				return fail("chain-invalid", "%s", d)
			}
			if v := c16Verdicts(work); v != verdictBefore && v != verdictAfter {
				return fail("verdict-neither-before-nor-after", "verification after the crash gives %s; before %s, after %s", v, verdictBefore, verdictAfter)
			}
		}
		s.ObserveKey(fmt.Sprintf("%+v|%d", c, k), k >= firstWrite, func() any {
			return map[string]any{"case": c, "fault_at_call": k, "of": len(calls), "call": calls[k-1]}
		}, "op_"+c.Op, "start_"+c.Start)
	}
	return nil
}

// c16MatchesKnown decides whether an inconsistency is one of the listed findings.
func c16MatchesKnown(id string, c c16Case, base *kit.MemStore, detail string) bool {
	switch id {
	case "C16-first-commit-not-rolled-back":
		// the first-ever commit on a managed ref is left in place when its log entry cannot be written
		for _, ref := range c16Managed {
			if _, err := base.GetReference(ref); errors.Is(err, gitstore.ErrReferenceNotFound) && strings.HasPrefix(detail, ref+" moved") {
				return true
			}
		}
	case "C16-reconcile-staging-no-rollback":
		return (c.Op == "reconcile" || c.Op == "apply") && (c.Start == "policy-ahead" || c.Start == "diverged") && strings.HasPrefix(detail, policy.PolicyStagingRef+" moved")
	}
	return false
}

func genC16(rt *rapid.T) c16Case {
	c := c16Case{}
	c.Start = rapid.SampledFrom([]string{"empty", "first", "established", "established", "policy-ahead", "diverged"}).Draw(rt, "start")
	c.Op = rapid.SampledFrom([]string{"ref", "refkey", "ann", "stage", "stage", "apply", "apply", "attest", "reconcile"}).Draw(rt, "op")
	c.Ref = rapid.SampledFrom([]string{"refs/heads/main", "refs/heads/feature", "refs/tags/v1"}).Draw(rt, "ref")
	c.Tree = rapid.IntRange(0, 4).Draw(rt, "tree")
	c.Skip = rapid.Bool().Draw(rt, "skip")
	c.Spec = rapid.IntRange(0, 1).Draw(rt, "spec")
	c.Msg = rapid.SampledFrom([]string{"", "note", "multi\nline"}).Draw(rt, "msg")
	return c
}

func TestC16(t *testing.T) {
	s := kit.Open(t, "C16")
	run := func(c c16Case) *kit.Failure { return runC16(t, s, c) }
	if rf := kit.Replay(t); rf != nil {
		kit.DoReplay(s, t, rf, run)
		return
	}
	s.SetRule("operations {reference entry (unsigned / specific key), annotation, State.Commit to policy-staging, policy.Apply, Attestations.Commit, ReconcileStaging} x starting states {empty repository, log without policy (first-ever policy / attestation commit), established repository, policy ahead of staging, policy and staging diverged} x generated arguments; for every triple the Storer calls N of an uninterrupted run are counted and EVERY k in 1..N is exercised twice: the k-th call fails (the operation must report an error, the chain stays valid without a partial entry, each managed ref is unchanged or equals its latest log entry's target, retry succeeds and reaches the uninterrupted state) and the process stops dead right after the k-th call (chain valid, every verdict is the one from before or after). One evaluation = one (triple, k). Non-trivial: k at or after the operation's first write")
	s.SetExhaustive(true)
	s.SetExtra("exhaustive_over", "every storage-call index k of every generated (operation, starting state, arguments) triple")
	kit.Campaign(s, t, "faults", "faults", s.Budget(1_200, 30_000), genC16, run)
}
