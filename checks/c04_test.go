//go:build verif

package verifchecks

import (
	"errors"
	"fmt"
	"sort"
	"strings"
	"testing"

	kit "github.com/gittuf/gittuf/internal/verifkit"
	"github.com/gittuf/gittuf/pkg/githash"
	"github.com/gittuf/gittuf/pkg/rsl"
	"pgregory.net/rapid"
)

// ---------------------------------------------------------------------------
// C04 - RSL queries match a plain scan of the chain and fail closed on tampering
// ---------------------------------------------------------------------------

var c04Refs = []string{"refs/heads/main", "refs/heads/feature", "refs/tags/v1", "refs/gittuf/policy", "refs/gittuf/policy-staging", "refs/gittuf/attestations"}

type c04Query struct {
	Fn        string `json:"fn"`
	Ref       string `json:"ref,omitempty"`
	BeforeID  int    `json:"before_id"` // -1 none, n = unknown id, else position
	BeforeNum uint64 `json:"before_num,omitempty"`
	UntilID   int    `json:"until_id"`
	UntilNum  uint64 `json:"until_num,omitempty"`
	Unskipped bool   `json:"unskipped,omitempty"`
	NonGittuf bool   `json:"non_gittuf,omitempty"`
	IsRef     bool   `json:"is_ref,omitempty"`
	PropRepo  string `json:"prop_repo,omitempty"`
	First     int    `json:"first,omitempty"`
	Last      int    `json:"last,omitempty"`
	Entry     int    `json:"entry,omitempty"`
	Commit    int    `json:"commit,omitempty"`
}

type c04Case struct {
	Log     []kit.AbsEntry  `json:"log"`
	Cor     *kit.Corruption `json:"cor,omitempty"`
	Queries []c04Query      `json:"queries"`
}

func genAbsLog(rt *rapid.T, maxLen int, refs []string) []kit.AbsEntry {
	n := rapid.IntRange(0, maxLen).Draw(rt, "loglen")
	legacy := 0
	if rapid.IntRange(0, 3).Draw(rt, "haslegacy") == 0 {
		legacy = rapid.IntRange(0, n).Draw(rt, "legacy")
	}
	log := make([]kit.AbsEntry, 0, n)
	for i := 0; i < n; i++ {
		kind := rapid.SampledFrom([]string{"ref", "ref", "ref", "prop", "ann", "ann"}).Draw(rt, "kind")
		if i == 0 && kind == "ann" {
			kind = "ref"
		}
		e := kit.AbsEntry{Kind: kind, Legacy: i < legacy}
		switch kind {
		case "ref":
			e.Ref = rapid.SampledFrom(refs).Draw(rt, "ref")
			e.Target = rapid.IntRange(0, 3).Draw(rt, "target")
		case "prop":
			e.Ref = rapid.SampledFrom(refs).Draw(rt, "ref")
			e.Target = rapid.IntRange(0, 3).Draw(rt, "target")
			e.Up = rapid.SampledFrom([]string{"https://up/A", "https://up/B"}).Draw(rt, "up")
			if e.Legacy {
				e.Kind, e.Up = "ref", ""
			}
		case "ann":
			k := rapid.IntRange(1, 3).Draw(rt, "nann")
			seen := map[int]bool{}
			for j := 0; j < k; j++ {
				p := rapid.IntRange(0, i-1).Draw(rt, "annpos")
				if !seen[p] {
					seen[p] = true
					e.Ann = append(e.Ann, p)
				}
			}
			e.Skip = rapid.Bool().Draw(rt, "skip")
			if rapid.IntRange(0, 3).Draw(rt, "hasmsg") == 0 {
				e.Msg = "note"
			}
		}
		log = append(log, e)
	}
	return log
}

func genC04Query(rt *rapid.T, n int) c04Query {
	q := c04Query{BeforeID: -1, UntilID: -1}
	q.Fn = rapid.SampledFrom([]string{"latest", "latest", "latest", "latest", "first", "firstref", "range", "rangeref", "nongittuf", "forcommit", "parent", "latestentry"}).Draw(rt, "fn")
	pos := func(label string) int {
		if n == 0 {
			return 0
		}
		return rapid.IntRange(0, n-1).Draw(rt, label)
	}
	switch q.Fn {
	case "latest":
		if rapid.Bool().Draw(rt, "hasref") {
			q.Ref = rapid.SampledFrom(c04Refs).Draw(rt, "qref")
		}
		switch rapid.IntRange(0, 5).Draw(rt, "before") {
		case 0, 1:
			q.BeforeID = pos("beforepos")
		case 2:
			q.BeforeNum = uint64(rapid.IntRange(1, n+2).Draw(rt, "beforenum"))
		case 3:
			if rapid.IntRange(0, 5).Draw(rt, "beforeunknown") == 0 {
				q.BeforeID = n // unknown id
			}
		}
		switch rapid.IntRange(0, 5).Draw(rt, "until") {
		case 0:
			q.UntilID = pos("untilpos")
		case 1:
			q.UntilNum = uint64(rapid.IntRange(1, n+2).Draw(rt, "untilnum"))
		case 2:
			if rapid.IntRange(0, 8).Draw(rt, "both") == 0 { // statically invalid combinations
				q.UntilID = pos("untilpos2")
				q.UntilNum = uint64(rapid.IntRange(1, n+1).Draw(rt, "untilnum2"))
			}
		}
		if rapid.IntRange(0, 15).Draw(rt, "bothbefore") == 0 {
			q.BeforeID = pos("bp")
			q.BeforeNum = uint64(rapid.IntRange(1, n+1).Draw(rt, "bn"))
		}
		q.Unskipped = rapid.Bool().Draw(rt, "unskipped")
		q.NonGittuf = rapid.IntRange(0, 3).Draw(rt, "nongittuf") == 0
		q.IsRef = rapid.IntRange(0, 3).Draw(rt, "isref") == 0
		if rapid.IntRange(0, 4).Draw(rt, "prop") == 0 {
			q.PropRepo = rapid.SampledFrom([]string{"https://up/A", "https://up/B", "https://up/none"}).Draw(rt, "proprepo")
		}
	case "firstref":
		q.Ref = rapid.SampledFrom(c04Refs).Draw(rt, "qref")
	case "range", "rangeref":
		q.First, q.Last = pos("first"), pos("last")
		if q.First > q.Last && rapid.IntRange(0, 4).Draw(rt, "keepinverted") != 0 {
			q.First, q.Last = q.Last, q.First
		}
		if q.Fn == "rangeref" {
			q.Ref = rapid.SampledFrom(c04Refs).Draw(rt, "qref")
		}
	case "nongittuf", "parent":
		q.Entry = pos("entry")
	case "forcommit":
		q.Commit = rapid.IntRange(0, 4).Draw(rt, "commit")
	}
	return q
}

func genC04(rt *rapid.T) c04Case {
	c := c04Case{Log: genAbsLog(rt, 12, c04Refs)}
	n := len(c.Log)
	if n >= 2 && rapid.IntRange(0, 2).Draw(rt, "corrupt") == 0 {
		kind := rapid.SampledFrom([]string{"extra-parent", "gap", "dup", "garbage"}).Draw(rt, "corkind")
		lo := 1
		if kind == "garbage" {
			lo = 0
		}
		p := rapid.IntRange(lo, n-1).Draw(rt, "corpos")
		ok := true
		// gap / dup need numbered neighbours to be a break of the numbering
		if kind == "gap" || kind == "dup" {
			if c.Log[p].Legacy || (kind == "dup" && c.Log[p-1].Legacy) {
				ok = false
			}
		}
		// annotations that name the garbage entry could not have been recorded
		if kind == "garbage" {
			for _, e := range c.Log[p+1:] {
				for _, a := range e.Ann {
					if a == p {
						ok = false
					}
				}
			}
		}
		if ok {
			c.Cor = &kit.Corruption{Kind: kind, Pos: p}
		}
	}
	nq := rapid.IntRange(1, 8).Draw(rt, "nq")
	for i := 0; i < nq; i++ {
		c.Queries = append(c.Queries, genC04Query(rt, n))
	}
	return c
}

// ---- the plain scan ------------------------------------------------------------

type c04Expect struct {
	Unspecified bool
	ErrIs       error  // exact documented error (errors.Is)
	AnyErr      bool   // some error, kind not pinned
	Entries     []int  // expected entry positions (single for all but range)
	Lowest      int    // lowest position the scan had to look at (for corruption crossing)
	Why         string // explanation
}

func annsFor(log []kit.AbsEntry, pos int, fromExclusive int) []string {
	var ids []string
	for j := fromExclusive + 1; j < len(log); j++ {
		if log[j].Kind != "ann" {
			continue
		}
		for _, a := range log[j].Ann {
			if a == pos {
				ids = append(ids, log[j].ID)
				break
			}
		}
	}
	sort.Strings(ids)
	return ids
}

func isSkipped(log []kit.AbsEntry, pos int) bool {
	if log[pos].Kind != "ref" {
		return false
	}
	for j := pos + 1; j < len(log); j++ {
		if log[j].Kind == "ann" && log[j].Skip {
			for _, a := range log[j].Ann {
				if a == pos {
					return true
				}
			}
		}
	}
	return false
}

func isUpdater(e kit.AbsEntry) bool { return e.Kind == "ref" || e.Kind == "prop" }

func expectLatest(log []kit.AbsEntry, q c04Query) c04Expect {
	n := len(log)
	invalid := c04Expect{ErrIs: rsl.ErrInvalidGetLatestReferenceUpdaterEntryOptions, Lowest: n}
	if q.BeforeID >= 0 && q.BeforeNum != 0 {
		return invalid
	}
	if q.UntilID >= 0 && q.UntilNum != 0 {
		return invalid
	}
	if q.BeforeNum != 0 && q.UntilNum != 0 && q.BeforeNum < q.UntilNum {
		return invalid
	}
	if q.IsRef && q.PropRepo != "" {
		return invalid
	}
	if n == 0 {
		return c04Expect{ErrIs: rsl.ErrRSLEntryNotFound, Lowest: 0}
	}
	tip := n - 1
	if log[tip].Kind == "garbage" {
		return c04Expect{AnyErr: true, Lowest: tip}
	}
	if log[tip].Number == 0 {
		if q.BeforeNum != 0 || q.UntilNum != 0 {
			return c04Expect{ErrIs: rsl.ErrCannotUseEntryNumberFilter, Lowest: tip}
		}
	} else if q.UntilNum != 0 && log[tip].Number < q.UntilNum {
		return c04Expect{ErrIs: rsl.ErrInvalidUntilEntryNumberCondition, Lowest: tip}
	}
	start := tip
	if q.BeforeID >= 0 || q.BeforeNum != 0 {
		anchor := -1
		for p := tip; p >= 0; p-- {
			if (q.BeforeID >= 0 && q.BeforeID == p) || (q.BeforeNum != 0 && log[p].Number != 0 && log[p].Number == q.BeforeNum) {
				anchor = p
				break
			}
		}
		if anchor < 0 {
			return c04Expect{AnyErr: true, Lowest: 0, Why: "before anchor is not in the log"}
		}
		// degenerate ranges: the anchor lies at or below the until bound
		if q.UntilNum != 0 && log[anchor].Number <= q.UntilNum {
			return c04Expect{Unspecified: true, Why: "before anchor at or below the until number"}
		}
		if q.UntilID >= 0 && (q.UntilID >= n || q.UntilID >= anchor) {
			return c04Expect{Unspecified: true, Why: "until entry not strictly below the before anchor"}
		}
		start = anchor - 1
		if start < 0 {
			return c04Expect{ErrIs: rsl.ErrRSLEntryNotFound, Lowest: 0}
		}
	} else if q.UntilID >= n {
		return c04Expect{Unspecified: true, Why: "until id not in log"}
	}
	for p := start; p >= 0; p-- {
		e := log[p]
		if e.Kind == "garbage" {
			return c04Expect{AnyErr: true, Lowest: p}
		}
		if q.UntilNum != 0 && e.Number < q.UntilNum {
			return c04Expect{ErrIs: rsl.ErrRSLEntryNotFound, Lowest: p}
		}
		if isUpdater(e) {
			m := true
			if q.Ref != "" && e.Ref != q.Ref {
				m = false
			}
			if q.IsRef && e.Kind != "ref" {
				m = false
			}
			if q.Unskipped && isSkipped(log, p) {
				m = false
			}
			if q.PropRepo != "" && (e.Kind != "prop" || e.Up != q.PropRepo) {
				m = false
			}
			if q.NonGittuf && kit.IsGittufRef(e.Ref) {
				m = false
			}
			if m {
				return c04Expect{Entries: []int{p}, Lowest: p}
			}
		}
		// inclusive bounds: the bound entry was examined, nothing older is
		if q.UntilID == p || (q.UntilNum != 0 && e.Number == q.UntilNum) {
			return c04Expect{ErrIs: rsl.ErrRSLEntryNotFound, Lowest: p}
		}
	}
	return c04Expect{ErrIs: rsl.ErrRSLEntryNotFound, Lowest: 0}
}

func expectFirst(log []kit.AbsEntry, ref string) c04Expect {
	if len(log) == 0 {
		return c04Expect{ErrIs: rsl.ErrRSLEntryNotFound}
	}
	for p := 0; p < len(log); p++ {
		if isUpdater(log[p]) && (ref == "" || log[p].Ref == ref) {
			return c04Expect{Entries: []int{p}, Lowest: 0}
		}
	}
	return c04Expect{ErrIs: rsl.ErrRSLEntryNotFound, Lowest: 0}
}

func relevantForRange(e kit.AbsEntry, ref string) bool {
	if !isUpdater(e) {
		return false
	}
	if ref == "" || e.Ref == ref {
		return true
	}
	return kit.IsGittufRef(e.Ref) && e.Ref != "refs/gittuf/policy-staging"
}

func expectRange(log []kit.AbsEntry, q c04Query) c04Expect {
	if len(log) == 0 {
		return c04Expect{ErrIs: rsl.ErrRSLEntryNotFound}
	}
	if q.First > q.Last {
		return c04Expect{AnyErr: true, Lowest: 0, Why: "first is newer than last"}
	}
	ex := c04Expect{Lowest: q.First}
	for p := q.First; p <= q.Last; p++ {
		if relevantForRange(log[p], q.Ref) {
			ex.Entries = append(ex.Entries, p)
		}
	}
	return ex
}

func expectNonGittufParent(log []kit.AbsEntry, pos int) c04Expect {
	if len(log) == 0 {
		return c04Expect{AnyErr: true}
	}
	if pos == 0 {
		return c04Expect{ErrIs: rsl.ErrRSLEntryNotFound, Lowest: 0}
	}
	for p := pos - 1; p >= 0; p-- {
		if isUpdater(log[p]) && !kit.IsGittufRef(log[p].Ref) {
			return c04Expect{Entries: []int{p}, Lowest: p}
		}
	}
	return c04Expect{ErrIs: rsl.ErrRSLEntryNotFound, Lowest: 0}
}

func expectForCommit(log []kit.AbsEntry, commit int) c04Expect {
	if len(log) == 0 {
		return c04Expect{ErrIs: rsl.ErrNoRecordOfCommit}
	}
	best := -1
	lowest := len(log) - 1
	for p := len(log) - 1; p >= 0; p-- {
		lowest = p
		e := log[p]
		if !isUpdater(e) || kit.IsGittufRef(e.Ref) {
			continue
		}
		if kit.PoolKnows(e.Target, commit) {
			best = p
			continue
		}
		break
	}
	if best < 0 {
		return c04Expect{ErrIs: rsl.ErrNoRecordOfCommit, Lowest: lowest}
	}
	return c04Expect{Entries: []int{best}, Lowest: lowest}
}

// crosses reports whether walking from the tip down to position lowest must
// take a broken step.
func crosses(log []kit.AbsEntry, cor *kit.Corruption, lowest int) bool {
	if cor == nil {
		return false
	}
	tip := len(log) - 1
	switch cor.Kind {
	case "garbage":
		return lowest <= cor.Pos // the scan has to load the garbage commit
	default:
		// the step from cor.Pos to cor.Pos-1 is broken
		return lowest <= cor.Pos-1 && cor.Pos <= tip
	}
}

func idsOfAnns(anns []*rsl.AnnotationEntry) []string {
	var ids []string
	for _, a := range anns {
		ids = append(ids, a.ID.String())
	}
	sort.Strings(ids)
	return ids
}

func c04Hash(log []kit.AbsEntry, pos int) githash.Hash {
	if pos >= len(log) || pos < 0 {
		h, _ := githash.NewHash(strings.Repeat("9", 40))
		return h
	}
	h, err := githash.NewHash(log[pos].ID)
	if err != nil {
		panic(err)
	}
	return h
}

type c04Result struct {
	err     error
	entries []string
	anns    [][]string
}

func (r c04Result) String() string {
	return fmt.Sprintf("err=%v entries=%v anns=%v", r.err, r.entries, r.anns)
}

func runC04Query(st kit.RawStore, pool *kit.CommitPool, log []kit.AbsEntry, q c04Query) c04Result {
	var res c04Result
	one := func(e rsl.ReferenceUpdaterEntry, anns []*rsl.AnnotationEntry, err error) {
		res.err = err
		if err == nil {
			res.entries = []string{e.GetID().String()}
			res.anns = [][]string{idsOfAnns(anns)}
		}
	}
	switch q.Fn {
	case "latest":
		var opts []rsl.GetLatestReferenceUpdaterEntryOption
		if q.Ref != "" {
			opts = append(opts, rsl.ForReference(q.Ref))
		}
		if q.BeforeID >= 0 {
			opts = append(opts, rsl.BeforeEntryID(c04Hash(log, q.BeforeID)))
		}
		if q.BeforeNum != 0 {
			opts = append(opts, rsl.BeforeEntryNumber(q.BeforeNum))
		}
		if q.UntilID >= 0 {
			opts = append(opts, rsl.UntilEntryID(c04Hash(log, q.UntilID)))
		}
		if q.UntilNum != 0 {
			opts = append(opts, rsl.UntilEntryNumber(q.UntilNum))
		}
		if q.Unskipped {
			opts = append(opts, rsl.IsUnskipped())
		}
		if q.NonGittuf {
			opts = append(opts, rsl.ForNonGittufReference())
		}
		if q.IsRef {
			opts = append(opts, rsl.IsReferenceEntry())
		}
		if q.PropRepo != "" {
			opts = append(opts, rsl.IsPropagationEntryForRepository(q.PropRepo))
		}
		one(rsl.GetLatestReferenceUpdaterEntry(st, opts...))
	case "first":
		one(rsl.GetFirstEntry(st))
	case "firstref":
		one(rsl.GetFirstReferenceUpdaterEntryForRef(st, q.Ref))
	case "range", "rangeref":
		var es []rsl.ReferenceUpdaterEntry
		var m map[string][]*rsl.AnnotationEntry
		var err error
		if q.Fn == "range" {
			es, m, err = rsl.GetReferenceUpdaterEntriesInRange(st, c04Hash(log, q.First), c04Hash(log, q.Last))
		} else {
			es, m, err = rsl.GetReferenceUpdaterEntriesInRangeForRef(st, c04Hash(log, q.First), c04Hash(log, q.Last), q.Ref)
		}
		res.err = err
		if err == nil {
			res.entries = []string{}
			used := 0
			for _, e := range es {
				res.entries = append(res.entries, e.GetID().String())
				res.anns = append(res.anns, idsOfAnns(m[e.GetID().String()]))
				if len(m[e.GetID().String()]) > 0 {
					used++
				}
			}
			if used != len(m) {
				res.entries = append(res.entries, fmt.Sprintf("annotation map has %d keys, %d belong to returned entries", len(m), used))
			}
		}
	case "nongittuf":
		ent, err := rsl.GetEntry(st, c04Hash(log, q.Entry))
		if err != nil {
			res.err = err
			return res
		}
		one(rsl.GetNonGittufParentReferenceUpdaterEntryForEntry(st, ent))
	case "forcommit":
		one(rsl.GetFirstReferenceUpdaterEntryForCommit(st, pool.IDs[q.Commit]))
	case "parent":
		ent, err := rsl.GetEntry(st, c04Hash(log, q.Entry))
		if err != nil {
			res.err = err
			return res
		}
		p, err := rsl.GetParentForEntry(st, ent)
		res.err = err
		if err == nil {
			res.entries = []string{p.GetID().String()}
			res.anns = [][]string{nil}
		}
	case "latestentry":
		e, err := rsl.GetLatestEntry(st)
		res.err = err
		if err == nil {
			res.entries = []string{e.GetID().String()}
			res.anns = [][]string{nil}
		}
	}
	return res
}

func expectC04(log []kit.AbsEntry, q c04Query) (ex c04Expect, withAnns bool, annFrom func(pos int) []string) {
	all := func(pos int) []string { return annsFor(log, pos, pos) }
	switch q.Fn {
	case "latest":
		return expectLatest(log, q), true, all
	case "first":
		return expectFirst(log, ""), true, all
	case "firstref":
		return expectFirst(log, q.Ref), true, all
	case "range", "rangeref":
		return expectRange(log, q), true, all
	case "nongittuf":
		if len(log) == 0 {
			return c04Expect{AnyErr: true}, false, all
		}
		return expectNonGittufParent(log, q.Entry), true, all
	case "forcommit":
		return expectForCommit(log, q.Commit), true, all
	case "parent":
		if len(log) == 0 {
			return c04Expect{AnyErr: true}, false, all
		}
		if q.Entry == 0 {
			return c04Expect{ErrIs: rsl.ErrRSLEntryNotFound, Lowest: 0}, false, all
		}
		return c04Expect{Entries: []int{q.Entry - 1}, Lowest: q.Entry - 1}, false, all
	case "latestentry":
		if len(log) == 0 {
			return c04Expect{ErrIs: rsl.ErrRSLEntryNotFound}, false, all
		}
		return c04Expect{Entries: []int{len(log) - 1}, Lowest: len(log) - 1}, false, all
	}
	panic("unknown fn " + q.Fn)
}

func runC04(s *kit.Session, c c04Case) *kit.Failure {
	rsl.VerifResetCache()
	st := kit.NewMemStore()
	pool, err := kit.BuildCommitPool(st)
	if err != nil {
		panic(err)
	}
	log := append([]kit.AbsEntry(nil), c.Log...)
	if err := kit.BuildLog(st, pool, log, c.Cor); err != nil {
		return &kit.Failure{Cause: "build", Msg: "well-formed log could not be recorded: " + err.Error()}
	}
	nAnn, refs := 0, map[string]bool{}
	for _, e := range log {
		if e.Kind == "ann" {
			nAnn++
		} else {
			refs[e.Ref] = true
		}
	}
	for qi, q := range c.Queries {
		ex, withAnns, annFrom := expectC04(log, q)
		// "parent" and "nongittuf" start from an entry, not from the tip
		startsAtEntry := q.Fn == "parent"
		for pass := 0; pass < 2; pass++ { // cold, then warm (process-wide cache populated)
			if pass == 0 {
				rsl.VerifResetCache()
			}
			got := runC04Query(st, pool, log, q)
			fail := func(cause, f string, a ...any) *kit.Failure {
				return &kit.Failure{Cause: cause, Msg: fmt.Sprintf("query %d %+v (pass %d, corruption %+v): %s\n got: %s", qi, q, pass, c.Cor, fmt.Sprintf(f, a...), got)}
			}
			if ex.Unspecified {
				continue
			}
			// corruption handling
			if c.Cor != nil {
				needTip := !startsAtEntry
				cross := false
				if needTip {
					cross = crosses(log, c.Cor, ex.Lowest)
				} else {
					// parent(entry): only the single step from q.Entry matters (plus loading both)
					switch c.Cor.Kind {
					case "garbage":
						cross = c.Cor.Pos == q.Entry || c.Cor.Pos == q.Entry-1
					default:
						cross = c.Cor.Pos == q.Entry
					}
				}
				if q.Fn == "nongittuf" && len(log) > 0 {
					// also needs parent(entry) and the entry itself
					if c.Cor.Kind == "garbage" && (c.Cor.Pos == q.Entry || c.Cor.Pos == q.Entry-1) {
						cross = true
					}
					if c.Cor.Kind != "garbage" && c.Cor.Pos == q.Entry {
						cross = true
					}
				}
				if ex.ErrIs == rsl.ErrInvalidGetLatestReferenceUpdaterEntryOptions {
					cross = false
				}
				if cross {
					if got.err == nil {
						return fail("fail-open", "the answer requires crossing the corruption but a result was returned")
					}
					continue
				}
				// not crossing: correct result or an error, never a different result
				if got.err != nil {
					continue
				}
			}
			switch {
			case ex.ErrIs != nil:
				if got.err == nil {
					return fail("wrong-result", "expected error %v", ex.ErrIs)
				}
				if !errors.Is(got.err, ex.ErrIs) {
					return fail("wrong-error", "expected error %v", ex.ErrIs)
				}
			case ex.AnyErr:
				if got.err == nil {
					return fail("wrong-result", "expected an error (%s)", ex.Why)
				}
			default:
				if got.err != nil {
					return fail("spurious-error", "expected entries at positions %v", ex.Entries)
				}
				want := make([]string, 0, len(ex.Entries))
				for _, p := range ex.Entries {
					want = append(want, log[p].ID)
				}
				if fmt.Sprint(want) != fmt.Sprint(got.entries) {
					return fail("wrong-result", "expected entries at positions %v = %v", ex.Entries, want)
				}
				if withAnns {
					for i, p := range ex.Entries {
						wa := annFrom(p)
						if fmt.Sprint(wa) != fmt.Sprint(got.anns[i]) {
							return fail("wrong-annotations", "entry at position %d: expected annotations %v", p, wa)
						}
					}
				}
			}
		}
		nconds := 0
		for _, b := range []bool{q.Ref != "", q.BeforeID >= 0 || q.BeforeNum != 0, q.UntilID >= 0 || q.UntilNum != 0, q.Unskipped, q.NonGittuf, q.IsRef, q.PropRepo != ""} {
			if b {
				nconds++
			}
		}
		positional := q.BeforeID >= 0 || q.BeforeNum != 0 || q.UntilID >= 0 || q.UntilNum != 0 || q.Fn == "range" || q.Fn == "rangeref" || q.Fn == "nongittuf"
		nt := (nAnn >= 1 || len(refs) >= 2) && (nconds >= 2 || positional)
		classes := []string{"fn_" + q.Fn}
		if ex.Unspecified {
			classes = append(classes, "unspecified")
		}
		if c.Cor != nil {
			classes = append(classes, "corrupt_"+c.Cor.Kind)
		}
		if len(ex.Entries) > 0 {
			classes = append(classes, "answer_found")
		}
		key := fmt.Sprintf("%v|%+v|%+v", c.Log, c.Cor, q)
		s.ObserveKey(key, nt, func() any { return map[string]any{"log": c.Log, "cor": c.Cor, "query": q} }, classes...)
	}
	return nil
}


// ---- bounded-exhaustive enumeration --------------------------------------------

// c04EnumLogs lists every log of exactly n entries over the alphabet:
// reference entry for main (targets c1 / s1), feature, the policy ref;
// propagation entry for main from upstream A; annotation naming one earlier
// entry (skip or not). legacy > 0 marks that many leading entries unnumbered.
func c04EnumLogs(n int) [][]kit.AbsEntry {
	base := []kit.AbsEntry{
		{Kind: "ref", Ref: "refs/heads/main", Target: 1},
		{Kind: "ref", Ref: "refs/heads/main", Target: 3},
		{Kind: "ref", Ref: "refs/heads/feature", Target: 2},
		{Kind: "ref", Ref: "refs/gittuf/policy", Target: 0},
		{Kind: "prop", Ref: "refs/heads/main", Target: 2, Up: "https://up/A"},
	}
	out := [][]kit.AbsEntry{}
	var rec func(cur []kit.AbsEntry)
	rec = func(cur []kit.AbsEntry) {
		if len(cur) == n {
			out = append(out, append([]kit.AbsEntry(nil), cur...))
			return
		}
		for _, b := range base {
			rec(append(cur, b))
		}
		for j := 0; j < len(cur); j++ {
			for _, skip := range []bool{true, false} {
				rec(append(cur, kit.AbsEntry{Kind: "ann", Ann: []int{j}, Skip: skip}))
			}
		}
	}
	rec(nil)
	return out
}

// c04EnumQueries lists the systematic query set for a log of n entries: every
// combination of the seven conditions of GetLatestReferenceUpdaterEntry with
// bounds at every position (by id and by number, plus one out-of-range number),
// and every argument of the other readers.
func c04EnumQueries(n int, full bool) []c04Query {
	var qs []c04Query
	type bound struct {
		id  int
		num uint64
	}
	bounds := []bound{{-1, 0}}
	for p := 0; p < n; p++ {
		bounds = append(bounds, bound{p, 0}, bound{-1, uint64(p + 1)})
	}
	bounds = append(bounds, bound{-1, uint64(n + 1)})
	refs := []string{"", "refs/heads/main", "refs/gittuf/policy"}
	flags := 16
	for _, ref := range refs {
		for _, b := range bounds {
			for _, u := range bounds {
				for f := 0; f < flags; f++ {
					if !full && f != 0 && f != 1 && f != 2 && f != 4 && f != 8 && f != 3 {
						continue
					}
					q := c04Query{Fn: "latest", Ref: ref, BeforeID: b.id, BeforeNum: b.num, UntilID: u.id, UntilNum: u.num,
						Unskipped: f&1 != 0, NonGittuf: f&2 != 0, IsRef: f&4 != 0}
					if f&8 != 0 {
						q.PropRepo = "https://up/A"
					}
					qs = append(qs, q)
				}
			}
		}
	}
	none := func(q c04Query) c04Query { q.BeforeID, q.UntilID = -1, -1; return q }
	qs = append(qs, none(c04Query{Fn: "first"}), none(c04Query{Fn: "latestentry"}))
	for _, ref := range []string{"refs/heads/main", "refs/heads/feature", "refs/gittuf/policy", "refs/tags/v1"} {
		qs = append(qs, none(c04Query{Fn: "firstref", Ref: ref}))
	}
	for a := 0; a < n; a++ {
		for b := 0; b < n; b++ {
			qs = append(qs, none(c04Query{Fn: "range", First: a, Last: b}))
			for _, ref := range []string{"refs/heads/main", "refs/heads/feature"} {
				qs = append(qs, none(c04Query{Fn: "rangeref", First: a, Last: b, Ref: ref}))
			}
		}
		qs = append(qs, none(c04Query{Fn: "nongittuf", Entry: a}), none(c04Query{Fn: "parent", Entry: a}))
	}
	for cmt := 0; cmt < 5; cmt++ {
		qs = append(qs, none(c04Query{Fn: "forcommit", Commit: cmt}))
	}
	return qs
}

// c04EnumCase maps an index to (log, legacy prefix, corruption) with the full
// query set attached.
func c04EnumCase(logsByLen map[int][][]kit.AbsEntry, maxLen int, plan func(n int) (corrupt, allLegacy, full bool), i int) (c04Case, bool) {
	for n := 0; n <= maxLen; n++ {
		logs := logsByLen[n]
		corrupt, allLegacy, full := plan(n)
		// variants per log: legacy prefix length 0..n, and (optionally) one corruption
		type variant struct {
			legacy int
			cor    *kit.Corruption
		}
		vars := []variant{}
		for l := 0; l <= n; l++ {
			if allLegacy || l == 0 || l == n/2 {
				vars = append(vars, variant{l, nil})
			}
		}
		if corrupt {
			for p := 0; p < n; p++ {
				for _, k := range []string{"extra-parent", "gap", "dup", "garbage"} {
					if p == 0 && k != "garbage" {
						continue
					}
					vars = append(vars, variant{0, &kit.Corruption{Kind: k, Pos: p}})
				}
			}
		}
		total := len(logs) * len(vars)
		if i >= total {
			i -= total
			continue
		}
		log := append([]kit.AbsEntry(nil), logs[i/len(vars)]...)
		v := vars[i%len(vars)]
		for j := 0; j < v.legacy; j++ {
			log[j].Legacy = true
			if log[j].Kind == "prop" { // propagation entries postdate numbering
				log[j].Kind, log[j].Up = "ref", ""
			}
		}
		c := c04Case{Log: log, Cor: v.cor, Queries: c04EnumQueries(n, full)}
		if v.cor != nil && v.cor.Kind == "garbage" {
			// annotations naming the garbage entry could not have been recorded
			for _, e := range log[v.cor.Pos+1:] {
				for _, a := range e.Ann {
					if a == v.cor.Pos {
						c.Queries = nil
					}
				}
			}
		}
		return c, true
	}
	return c04Case{}, false
}

func TestC04(t *testing.T) {
	s := kit.Open(t, "C04")
	run := func(c c04Case) *kit.Failure { return runC04(s, c) }
	if rf := kit.Replay(t); rf != nil {
		kit.DoReplay(s, t, rf, run)
		return
	}
	s.SetRule("rapid: logs of 0-12 entries over 6 refs (incl. refs/gittuf/*), kinds {reference, propagation(A|B), annotation(1-3 earlier targets, skip or not)}, optional unnumbered prefix, optionally one corruption {extra parent, number gap, number duplicate, garbage message} at any position; 1-8 queries per log over all readers and option combinations with bounds drawn from every log position plus out-of-range numbers/unknown ids; each query evaluated cold and warm. Plus a bounded-exhaustive enumeration (see enumeration_bound). One evaluation = one (log, query). Non-trivial: log has >=1 annotation or >=2 refs AND the query has >=2 conditions or a positional bound; distinct by SHA-256 of (log, corruption, query)")
	kit.Campaign(s, t, "queries", "queries", s.Budget(60_000, 2_000_000), genC04, run)
	// bounded-exhaustive: every log up to a length bound x every legacy prefix x
	// (every single-point corruption) x the systematic query set
	// quick: logs <=2 with everything, logs of 3 without corruption; thorough:
	// logs <=3 with everything and all 16 flag combinations, logs of 4 without
	// corruption and with 6 of the 16 flag combinations
	maxLen := 3
	plan := func(n int) (bool, bool, bool) { return n <= 2, n <= 2, false }
	planText := "logs of 0..2 entries: every unnumbered-prefix length, every single-point corruption; logs of 3 entries: prefix lengths {0, 1}, no corruption; 6 of the 16 flag combinations"
	if s.Thorough() {
		maxLen = 4
		plan = func(n int) (bool, bool, bool) { return n <= 3, n <= 3, n <= 3 }
		planText = "logs of 0..3 entries: every unnumbered-prefix length, every single-point corruption, all 16 flag combinations; logs of 4 entries: prefix lengths {0, 2}, no corruption, 6 of the 16 flag combinations"
	}
	logsByLen := map[int][][]kit.AbsEntry{}
	for n := 0; n <= maxLen; n++ {
		logsByLen[n] = c04EnumLogs(n)
	}
	runMin := func(c c04Case) *kit.Failure {
		f := run(c)
		if f == nil {
			return nil
		}
		// keep the replay file small: find the single failing query
		for _, q := range c.Queries {
			one := c04Case{Log: c.Log, Cor: c.Cor, Queries: []c04Query{q}}
			if g := kit.SafeRun("queries", one, run); g != nil {
				g.Case = one
				return g
			}
		}
		return f
	}
	ok := kit.Enumerate(s, t, "enum", "queries", func(i int) (c04Case, bool) { return c04EnumCase(logsByLen, maxLen, plan, i) }, runMin)
	s.SetExhaustive(ok)
	s.SetExtra("enumeration_bound", fmt.Sprintf("every log of 0..%d entries over {main->c1, main->s1, feature->c2, policy->c0, propagation(main, upstream A), annotation of one earlier entry (skip / no skip)} x unnumbered prefixes x {no corruption, each of extra-parent / gap / dup / garbage at each position} x the systematic query set (latest: refs {none, main, policy} x before {none, every position by id, every number, n+1} x until {same} x flag combinations of unskipped / non-gittuf / is-reference / propagation-for-A; first, latest entry, firstref x4, range / rangeref over all position pairs, non-gittuf parent and parent of every entry, for-commit over the 5 pool commits), each cold and warm. %s", maxLen, planText))
}
