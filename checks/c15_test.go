//go:build verif

package verifchecks

import (
	rslopts "github.com/gittuf/gittuf/experimental/gittuf/options/rsl"
	"context"
	"fmt"
	"os"
	"path/filepath"
	"sort"
	"strings"
	"testing"

	gittuf "github.com/gittuf/gittuf/experimental/gittuf"
	kit "github.com/gittuf/gittuf/internal/verifkit"
	"github.com/gittuf/gittuf/pkg/githash"
	"github.com/gittuf/gittuf/pkg/rsl"
	"pgregory.net/rapid"
)

// ---------------------------------------------------------------------------
// C15 - Reconcile and sync never drop, reorder, un-revoke or invent log entries
// ---------------------------------------------------------------------------

type c15Entry struct {
	Kind    string `json:"kind"` // ref | reref (records the ref's current state again: same target as its previous entry) | ann | prop
	Ref     string `json:"ref,omitempty"`
	Targets []int  `json:"targets,omitempty"` // ann: indices into (shared ++ own suffix so far)
	Skip    bool   `json:"skip,omitempty"`
}

type c15Case struct {
	Shared     []c15Entry `json:"shared"`
	Local      []c15Entry `json:"local"`
	Remote     []c15Entry `json:"remote"`
	LocalExtra []string   `json:"local_extra,omitempty"` // refs that get an unrecorded extra local commit (ahead / diverged)
	Op         string     `json:"op"`                    // reconcile | sync | sync-overwrite | record-remote
}

var c15Refs = []string{"refs/heads/main", "refs/heads/feature", "refs/heads/release", "refs/heads/docs"}

func genC15Suffix(rt *rapid.T, label string, nShared, maxLen int, refs []string) []c15Entry {
	n := rapid.IntRange(0, maxLen).Draw(rt, label+"n")
	var out []c15Entry
	for i := 0; i < n; i++ {
		kind := rapid.SampledFrom([]string{"ref", "ref", "ref", "reref", "ann", "annpair", "annpair", "prop"}).Draw(rt, label+"kind")
		if nShared+len(out) == 0 && (kind == "ann" || kind == "annpair") {
			kind = "ref"
		}
		if kind == "annpair" {
			// a revocation followed by a plain note on the same entry
			tgt := rapid.IntRange(0, nShared+len(out)-1).Draw(rt, label+"pt")
			// mostly: the latest reference entry of this suffix (the state a sync would move to)
			for j := len(out) - 1; j >= 0; j-- {
				if (out[j].Kind == "ref" || out[j].Kind == "reref") && rapid.IntRange(0, 3).Draw(rt, label+"platest") != 0 {
					tgt = nShared + j
					break
				}
			}
			out = append(out, c15Entry{Kind: "ann", Targets: []int{tgt}, Skip: true}, c15Entry{Kind: "ann", Targets: []int{tgt}, Skip: false})
			i++
			continue
		}
		e := c15Entry{Kind: kind}
		switch kind {
		case "ref", "prop", "reref":
			e.Ref = rapid.SampledFrom(refs).Draw(rt, label+"ref")
		case "ann":
			k := rapid.IntRange(1, 2).Draw(rt, label+"nt")
			for j := 0; j < k; j++ {
				e.Targets = append(e.Targets, rapid.IntRange(0, nShared+len(out)-1).Draw(rt, label+"t"))
			}
			e.Targets = uniqInts(e.Targets)
			e.Skip = rapid.IntRange(0, 3).Draw(rt, label+"skip") != 0
		}
		out = append(out, e)
	}
	return out
}

func genC15(rt *rapid.T) c15Case {
	c := c15Case{}
	ns := rapid.IntRange(1, 3).Draw(rt, "nshared")
	for i := 0; i < ns; i++ {
		c.Shared = append(c.Shared, c15Entry{Kind: "ref", Ref: rapid.SampledFrom(c15Refs[:3]).Draw(rt, "sref")})
	}
	shape := rapid.SampledFrom([]string{"disjoint", "disjoint", "overlap", "local-only", "remote-only", "remote-only"}).Draw(rt, "shape")
	localRefs, remoteRefs := c15Refs, c15Refs
	if shape == "disjoint" {
		localRefs, remoteRefs = c15Refs[:2], c15Refs[2:]
	}
	if shape != "remote-only" {
		c.Local = genC15Suffix(rt, "l", len(c.Shared), 4, localRefs)
	}
	if shape != "local-only" {
		c.Remote = genC15Suffix(rt, "r", len(c.Shared), 4, remoteRefs)
	}
	if rapid.IntRange(0, 2).Draw(rt, "extra") == 0 {
		c.LocalExtra = []string{rapid.SampledFrom(c15Refs).Draw(rt, "extraref")}
	}
	c.Op = rapid.SampledFrom([]string{"reconcile", "reconcile", "sync", "sync-overwrite", "record-remote"}).Draw(rt, "op")
	return c
}

// c15Side records entries on one repository.
type c15Side struct {
	g       *kit.GitStore
	ids     []string // entry ids of shared ++ own suffix, by index
	tips    map[string]githash.Hash
	counter *int
}

func (sd *c15Side) record(e c15Entry) error {
	if e.Kind == "reref" {
		if cur, ok := sd.tips[e.Ref]; ok {
			// the same state is recorded again (e.g. after its entry was revoked)
			if err := rsl.NewReferenceEntry(e.Ref, cur).Commit(sd.g, false); err != nil {
				return err
			}
			tip, err := sd.g.GetReference(rsl.Ref)
			if err != nil {
				return err
			}
			sd.ids = append(sd.ids, tip.String())
			return nil
		}
		e.Kind = "ref" // nothing recorded for this ref yet: an ordinary first entry
	}
	switch e.Kind {
	case "ref", "prop":
		*sd.counter++
		blob, err := sd.g.WriteBlob([]byte(fmt.Sprintf("content %d\n", *sd.counter)))
		if err != nil {
			return err
		}
		tree, err := sd.g.WriteTree([]kit.TreeEntry{{Path: "f", ID: blob}})
		if err != nil {
			return err
		}
		var parents []githash.Hash
		if p, ok := sd.tips[e.Ref]; ok {
			parents = []githash.Hash{p}
		}
		commit, err := sd.g.RawCommit(tree, parents, fmt.Sprintf("commit %d\n", *sd.counter), nil)
		if err != nil {
			return err
		}
		if err := sd.g.SetReference(e.Ref, commit); err != nil {
			return err
		}
		sd.tips[e.Ref] = commit
		if e.Kind == "ref" {
			err = rsl.NewReferenceEntry(e.Ref, commit).Commit(sd.g, false)
		} else {
			err = rsl.NewPropagationEntry(e.Ref, commit, "https://upstream.example/repo", commit).Commit(sd.g, false)
		}
		if err != nil {
			return err
		}
	case "ann":
		var ids []githash.Hash
		for _, t := range e.Targets {
			ids = append(ids, kit.HashOf(sd.ids[t]))
		}
		if err := rsl.NewAnnotationEntry(ids, e.Skip, "note").Commit(sd.g, false); err != nil {
			return err
		}
	}
	tip, err := sd.g.GetReference(rsl.Ref)
	if err != nil {
		return err
	}
	sd.ids = append(sd.ids, tip.String())
	return nil
}

// c15Abs is the meaning of an entry, with annotation targets expressed as
// positions in the chain it belongs to.
func c15Abs(chain []*kit.RawEntry) []string {
	pos := map[string]int{}
	for i, e := range chain {
		pos[e.ID] = i
	}
	var out []string
	for _, e := range chain {
		switch e.Kind {
		case "annotation":
			var ts []string
			for _, id := range e.IDs {
				if p, ok := pos[id]; ok {
					ts = append(ts, fmt.Sprint(p))
				} else {
					ts = append(ts, "dangling:"+id[:8])
				}
			}
			sort.Strings(ts)
			out = append(out, fmt.Sprintf("annotation skip=%v -> [%s]", e.Skip, strings.Join(ts, ",")))
		case "propagation":
			out = append(out, fmt.Sprintf("propagation %s %s %s %s", e.Ref, e.Target, e.Up, e.UpEntry))
		default:
			out = append(out, fmt.Sprintf("reference %s %s", e.Ref, e.Target))
		}
	}
	return out
}

func allRefs(g *kit.GitStore) map[string]string {
	r, err := g.Refs()
	if err != nil {
		panic(err)
	}
	delete(r, "refs/remotes/origin/gittuf/reference-state-log")
	return r
}

func runC15(t *testing.T, s *kit.Session, c c15Case) *kit.Failure {
	rsl.VerifResetCache()
	tmp, err := os.MkdirTemp("", "c15-")
	if err != nil {
		panic(err)
	}
	defer os.RemoveAll(tmp)
	harness := func(err error) *kit.Failure { return &kit.Failure{Cause: "harness", Msg: err.Error()} }
	remote := kit.NewGitStore(t, filepath.Join(tmp, "remote"), true)
	local := kit.NewGitStore(t, filepath.Join(tmp, "local"), true)
	if err := local.CreateRemote("origin", remote.GitDir); err != nil {
		return harness(err)
	}
	counter := 0
	ls := &c15Side{g: local, tips: map[string]githash.Hash{}, counter: &counter}
	for _, e := range c.Shared {
		if err := ls.record(e); err != nil {
			return harness(err)
		}
	}
	// publish the shared prefix
	if _, err := local.Git(nil, "push", "-q", "origin", "refs/heads/*:refs/heads/*", "refs/gittuf/*:refs/gittuf/*"); err != nil {
		return harness(err)
	}
	rs := &c15Side{g: remote, tips: map[string]githash.Hash{}, counter: &counter, ids: append([]string{}, ls.ids...)}
	for k, v := range ls.tips {
		rs.tips[k] = v
	}
	for _, e := range c.Local {
		if err := ls.record(e); err != nil {
			return harness(err)
		}
	}
	for _, e := range c.Remote {
		if err := rs.record(e); err != nil {
			return harness(err)
		}
	}
	for _, ref := range c.LocalExtra {
		// an unrecorded local commit on top of the local branch
		counter++
		blob, _ := local.WriteBlob([]byte(fmt.Sprintf("extra %d\n", counter)))
		tree, _ := local.WriteTree([]kit.TreeEntry{{Path: "f", ID: blob}})
		var parents []githash.Hash
		if p, ok := ls.tips[ref]; ok {
			parents = []githash.Hash{p}
		}
		commit, err := local.RawCommit(tree, parents, "unrecorded\n", nil)
		if err != nil {
			return harness(err)
		}
		if err := local.SetReference(ref, commit); err != nil {
			return harness(err)
		}
	}
	localChainBefore, _ := kit.WalkChain(local, kit.RSLRef)
	remoteChainBefore, _ := kit.WalkChain(remote, kit.RSLRef)
	localRefsBefore, remoteRefsBefore := allRefs(local), allRefs(remote)
	// the common prefix of the two logs: at least the shared entries, and more
	// when both sides happened to record byte-identical entries next (test
	// repositories use a fixed clock, so equal entries have equal ids)
	nShared := 0
	for nShared < len(localChainBefore) && nShared < len(remoteChainBefore) && localChainBefore[nShared].ID == remoteChainBefore[nShared].ID {
		nShared++
	}
	localSuffix, remoteSuffix := localChainBefore[nShared:], remoteChainBefore[nShared:]

	// which refs did each side's suffix update (by any reference-updating entry)?
	touched := func(suffix []*kit.RawEntry) map[string]bool {
		m := map[string]bool{}
		for _, e := range suffix {
			if e.Kind == "reference" || e.Kind == "propagation" {
				m[e.Ref] = true
			}
		}
		return m
	}
	lt, rt2 := touched(localSuffix), touched(remoteSuffix)
	conflict := false
	for r := range lt {
		if rt2[r] {
			conflict = true
		}
	}
	diverged := len(localSuffix) > 0 && len(remoteSuffix) > 0
	repo := gittuf.VerifWrap(local.Repository)
	rsl.VerifResetCache()
	fail := func(cause, f string, a ...any) *kit.Failure {
		return &kit.Failure{Cause: cause, Msg: fmt.Sprintf("%s: %s", c.Op, fmt.Sprintf(f, a...))}
	}
	classes := []string{"op_" + c.Op}
	if diverged {
		classes = append(classes, "logs_diverged")
	}
	nontrivial := false
	for _, e := range c.Local {
		if diverged && (e.Kind == "ann" || e.Kind == "prop") {
			nontrivial = true
		}
	}
	if len(c.LocalExtra) > 0 {
		nontrivial = true
	}

	switch c.Op {
	case "reconcile":
		opErr := repo.ReconcileLocalRSLWithRemote(context.Background(), "origin", false)
		rsl.VerifResetCache()
		localChain, err := kit.WalkChain(local, kit.RSLRef)
		if err != nil {
			return fail("chain-unreadable", "%v", err)
		}
		if d := kit.CheckChain(localChain); d != "" {
			return fail("chain-invalid", "%s", d)
		}
		if d := diffRefs(remoteRefsBefore, allRefs(remote)); len(d) != 0 {
			return fail("remote-changed", "reconciling the local log changed remote references %v", d)
		}
		for ref, id := range localRefsBefore {
			if ref != rsl.Ref && allRefs(local)[ref] != id {
				return fail("ref-moved", "reconciling the log moved local reference %s", ref)
			}
		}
		switch {
		case diverged && conflict:
			classes = append(classes, "conflict")
			if opErr == nil {
				return fail("conflict-not-refused", "both sides changed the same reference but reconciliation succeeded")
			}
			if fmt.Sprint(kit.ChainIDs(localChain)) != fmt.Sprint(kit.ChainIDs(localChainBefore)) {
				return fail("refused-but-changed", "reconciliation was refused but the local log changed")
			}
		case diverged:
			if opErr != nil {
				return fail("reconcile-error", "sides changed different references but reconciliation failed: %v", opErr)
			}
			// expected: remote chain ++ images of local-only entries with the same meaning
			want := c15Abs(remoteChainBefore)
			localAbs := c15Abs(localChainBefore)
			base := len(remoteChainBefore)
			for i := nShared; i < len(localChainBefore); i++ {
				e := localChainBefore[i]
				if e.Kind == "annotation" {
					// targets: shared entries keep their position; local-only ones map to their image
					pos := map[string]int{}
					for j, le := range localChainBefore {
						pos[le.ID] = j
					}
					var ts []string
					for _, id := range e.IDs {
						p := pos[id]
						if p >= nShared {
							p = base + (p - nShared)
						}
						ts = append(ts, fmt.Sprint(p))
					}
					sort.Strings(ts)
					want = append(want, fmt.Sprintf("annotation skip=%v -> [%s]", e.Skip, strings.Join(ts, ",")))
				} else {
					want = append(want, localAbs[i])
				}
			}
			got := c15Abs(localChain)
			if fmt.Sprint(got) != fmt.Sprint(want) {
				return fail("entries-lost-or-changed", "after reconciliation the local log is not 'remote log followed by the local-only entries with the same meaning':\n want %s\n got  %s", strings.Join(want, "\n      "), strings.Join(got, "\n      "))
			}
			if !kit.IsPrefix(kit.ChainIDs(remoteChainBefore), kit.ChainIDs(localChain)) {
				return fail("not-extending-remote", "the reconciled local log does not extend the remote tip")
			}
		case len(remoteSuffix) > 0: // local strictly behind
			if opErr != nil {
				return fail("reconcile-error", "local log behind remote but reconciliation failed: %v", opErr)
			}
			if fmt.Sprint(kit.ChainIDs(localChain)) != fmt.Sprint(kit.ChainIDs(remoteChainBefore)) {
				return fail("not-fast-forwarded", "local log behind the remote was not updated to the remote log")
			}
		default: // equal or local ahead
			if opErr != nil {
				return fail("reconcile-error", "%v", opErr)
			}
			if fmt.Sprint(kit.ChainIDs(localChain)) != fmt.Sprint(kit.ChainIDs(localChainBefore)) {
				return fail("log-changed", "local log equal to / ahead of the remote changed")
			}
		}
	case "sync", "sync-overwrite":
		overwrite := c.Op == "sync-overwrite"
		_, opErr := repo.Sync(context.Background(), "origin", overwrite, false)
		rsl.VerifResetCache()
		localRefs, remoteRefs := allRefs(local), allRefs(remote)
		localChain, err := kit.WalkChain(local, kit.RSLRef)
		if err != nil {
			return fail("chain-unreadable", "%v", err)
		}
		if d := kit.CheckChain(localChain); d != "" {
			return fail("chain-invalid", "%s", d)
		}
		// latest unskipped recorded state of each ref on the remote (before the operation)
		latestRemote := c15LatestUnskipped(remoteChainBefore)
		remoteSuffixRefs := rt2
		if opErr != nil {
			// refused: nothing may have changed
			if d := diffRefs(localRefsBefore, localRefs); len(d) != 0 {
				return fail("refused-but-changed", "sync failed (%v) but local references changed: %v", opErr, d)
			}
			if d := diffRefs(remoteRefsBefore, remoteRefs); len(d) != 0 {
				return fail("refused-but-changed", "sync failed (%v) but remote references changed: %v", opErr, d)
			}
			classes = append(classes, "sync_refused")
		} else {
			// every local reference that moved must now be at its latest unskipped remote entry's target
			for ref, id := range localRefs {
				if ref == rsl.Ref || strings.HasPrefix(ref, "refs/remotes/") {
					continue
				}
				if localRefsBefore[ref] == id {
					continue
				}
				want, ok := latestRemote[ref]
				if !ok || want != id {
					return fail("ref-moved-to-unrecorded-state", "local %s moved to %s but its latest unskipped remote entry records %q", ref, id, want)
				}
				if !remoteSuffixRefs[ref] {
					return fail("ref-moved-without-new-entry", "local %s moved although the remote recorded nothing new for it", ref)
				}
				if !overwrite {
					// must be a fast-forward of the previous local state
					if prev, had := localRefsBefore[ref]; had {
						if _, err := local.Git(nil, "merge-base", "--is-ancestor", prev, id); err != nil {
							return fail("local-ref-overwritten", "local %s was rewound / overwritten (from %s to %s) without being told to", ref, prev, id)
						}
					}
				}
			}
			// local-only entries are only published together with the references they name
			if len(localSuffix) > 0 && len(remoteSuffix) == 0 {
				if remoteRefs[rsl.Ref] != localRefsBefore[rsl.Ref] {
					return fail("log-not-published", "local log ahead of the remote but the remote log is not the local log after sync")
				}
				for ref, want := range c15LatestUnskippedSuffix(localChainBefore, nShared) {
					// the named reference must be on the remote and contain the recorded state
					// (the local branch may already be ahead of its latest entry)
					got, ok := remoteRefs[ref]
					if ok {
						if _, err := remote.Git(nil, "merge-base", "--is-ancestor", want, got); err != nil {
							ok = false
						}
					}
					if !ok {
						return fail("entry-published-without-ref", "local-only entry for %s (target %s) was published but the remote reference is %q", ref, want, remoteRefs[ref])
					}
				}
			}
			if remoteRefs[rsl.Ref] != remoteRefsBefore[rsl.Ref] {
				// the remote log moved: it must now contain every local entry exactly in order
				rc, _ := kit.WalkChain(remote, kit.RSLRef)
				if !kit.IsPrefix(kit.ChainIDs(remoteChainBefore), kit.ChainIDs(rc)) {
					return fail("remote-log-rewritten", "the remote log lost entries")
				}
			}
		}
	case "record-remote":
		// RecordRSLEntryForReference with a remote: sync, record the current local
		// state of a reference, sync again
		ref := ""
		if len(c.LocalExtra) > 0 {
			ref = c.LocalExtra[0]
		} else {
			for _, r := range c15Refs {
				if _, ok := localRefsBefore[r]; ok {
					ref = r
					break
				}
			}
		}
		if ref == "" {
			s.Observe(c, false, classes...)
			return nil
		}
		tipBefore := localRefsBefore[ref]
		opErr := repo.RecordRSLEntryForReference(context.Background(), ref, false, rslopts.WithRecordRemote("origin"))
		rsl.VerifResetCache()
		localRefs, remoteRefs := allRefs(local), allRefs(remote)
		localChain, err := kit.WalkChain(local, kit.RSLRef)
		if err != nil {
			return fail("chain-unreadable", "%v", err)
		}
		if d := kit.CheckChain(localChain); d != "" {
			return fail("chain-invalid", "%s", d)
		}
		remoteChain, err := kit.WalkChain(remote, kit.RSLRef)
		if err != nil {
			return fail("chain-unreadable", "remote: %v", err)
		}
		if d := kit.CheckChain(remoteChain); d != "" {
			return fail("chain-invalid", "remote: %s", d)
		}
		if !kit.IsPrefix(kit.ChainIDs(remoteChainBefore), kit.ChainIDs(remoteChain)) {
			return fail("remote-log-rewritten", "the remote log lost entries")
		}
		if diverged {
			// the logs have diverged and nobody asked to overwrite: refused, nothing changes
			classes = append(classes, "record_refused_diverged")
			if opErr == nil {
				return fail("diverged-not-refused", "local and remote logs have diverged but recording with the remote succeeded")
			}
			if d := diffRefs(localRefsBefore, localRefs); len(d) != 0 {
				return fail("refused-but-changed", "recording was refused (%v) but local references changed: %v", opErr, d)
			}
			if d := diffRefs(remoteRefsBefore, remoteRefs); len(d) != 0 {
				return fail("refused-but-changed", "recording was refused (%v) but remote references changed: %v", opErr, d)
			}
			break
		}
		if opErr != nil {
			// e.g. the remote recorded something new for a reference that has an
			// unrecorded local commit: the entries recorded before are all still there
			classes = append(classes, "record_failed")
			if !kit.IsPrefix(kit.ChainIDs(localChainBefore), kit.ChainIDs(localChain)) && !kit.IsPrefix(kit.ChainIDs(remoteChainBefore), kit.ChainIDs(localChain)) {
				return fail("entries-lost-or-changed", "recording failed (%v) and the local log no longer extends what it or the remote held", opErr)
			}
			break
		}
		// success: base = the longer of the two logs (one is a prefix of the other)
		base := localChainBefore
		if len(remoteChainBefore) > len(base) {
			base = remoteChainBefore
		}
		if !kit.IsPrefix(kit.ChainIDs(base), kit.ChainIDs(localChain)) {
			return fail("entries-lost-or-changed", "after recording, the local log does not extend the log both sides agreed on")
		}
		added := localChain[len(base):]
		tipAfter := localRefs[ref]
		wantNew := true
		if latest, ok := c15LatestUnskipped(base)[ref]; ok && latest == tipAfter {
			wantNew = false // the latest unskipped entry already records this state
		}
		switch {
		case wantNew && (len(added) != 1 || added[0].Kind != "reference" || added[0].Ref != ref || added[0].Target != tipAfter):
			return fail("wrong-entry-recorded", "expected exactly one new reference entry for %s -> %s, the log grew by %d entries %v", ref, tipAfter, len(added), c15Abs(localChain)[len(base):])
		case !wantNew && len(added) != 0:
			return fail("wrong-entry-recorded", "the latest entry for %s already records %s but %d entries were added", ref, tipAfter, len(added))
		}
		if tipAfter != tipBefore {
			// the reference may only have been fast-forwarded to what the remote recorded
			want, ok := c15LatestUnskipped(remoteChainBefore)[ref]
			if !ok || want != tipAfter {
				return fail("ref-moved-to-unrecorded-state", "local %s moved from %s to %s which is not its latest unskipped remote entry (%q)", ref, tipBefore, tipAfter, want)
			}
		}
		if fmt.Sprint(kit.ChainIDs(remoteChain)) != fmt.Sprint(kit.ChainIDs(localChain)) {
			return fail("log-not-published", "recording with a remote succeeded but the remote log is not the local log")
		}
		// entries are published together with the references they name
		for r, want := range c15LatestUnskippedSuffix(localChain, len(remoteChainBefore)) {
			got, ok := remoteRefs[r]
			if ok {
				if _, err := remote.Git(nil, "merge-base", "--is-ancestor", want, got); err != nil {
					ok = false
				}
			}
			if !ok {
				return fail("entry-published-without-ref", "entry for %s (target %s) was published but the remote reference is %q", r, want, remoteRefs[r])
			}
		}
		if wantNew {
			classes = append(classes, "record_new_entry_published")
			nontrivial = true
		}
	}
	s.Observe(c, nontrivial, classes...)
	return nil
}

// c15LatestUnskipped: ref -> target of the latest reference-updating entry that is not revoked.
func c15LatestUnskipped(chain []*kit.RawEntry) map[string]string {
	return c15LatestUnskippedSuffix(chain, 0)
}

func c15LatestUnskippedSuffix(chain []*kit.RawEntry, from int) map[string]string {
	skipped := map[string]bool{}
	for _, e := range chain {
		if e.Kind == "annotation" && e.Skip {
			for _, id := range e.IDs {
				skipped[id] = true
			}
		}
	}
	out := map[string]string{}
	for i := from; i < len(chain); i++ {
		e := chain[i]
		if (e.Kind == "reference" && !skipped[e.ID]) || e.Kind == "propagation" {
			out[e.Ref] = e.Target
		}
	}
	return out
}

func TestC15(t *testing.T) {
	s := kit.Open(t, "C15")
	run := func(c c15Case) *kit.Failure { return runC15(t, s, c) }
	if rf := kit.Replay(t); rf != nil {
		kit.DoReplay(s, t, rf, run)
		return
	}
	s.SetRule("rapid on real repositories (a bare remote and a local repository with it as 'origin'): a shared log prefix of 1-3 entries, local-only and remote-only suffixes of 0-4 entries each {reference entries on new commits, reference entries that record a ref's current state again, annotations (skip or not) naming shared or own-suffix entries, a revocation followed by a plain note on the same entry, propagation entries} over disjoint or overlapping refs, optionally an unrecorded extra local commit on some ref (local ahead / diverged), then ReconcileLocalRSLWithRemote, Sync, Sync with overwrite, or RecordRSLEntryForReference with the remote (sync, record, sync). Oracle (reconcile): conflict => refused and nothing changed; otherwise local log = remote log ++ the local-only entries in order with the same (kind, ref, target, upstream fields) and annotations naming the images of what they named; no ref other than the log moves. Oracle (sync): a refused sync changes nothing; a local ref moves only to the target of its latest unskipped remote entry, only if the remote recorded something new for it, and without overwrite only by fast-forward; a local log ahead is published together with the refs its unskipped entries name; the remote log never loses entries. Oracle (record with remote): diverged logs => refused and nothing changed; success => local log = agreed log ++ exactly one reference entry for the ref's current state (none if already recorded), remote log = local log, every newly published entry's ref is on the remote. Non-trivial: diverged logs with a local-only annotation or propagation entry, or an unrecorded local commit")
	kit.Campaign(s, t, "reconcile-sync", "sync", s.Budget(96, 4_000), genC15, run)
}
