//go:build verif

package verifchecks

import (
	"context"
	"errors"
	"fmt"
	"testing"

	"github.com/gittuf/gittuf/internal/policy"
	kit "github.com/gittuf/gittuf/internal/verifkit"
	"github.com/gittuf/gittuf/pkg/githash"
	"github.com/gittuf/gittuf/pkg/gitstore"
	"github.com/gittuf/gittuf/pkg/rsl"
	"pgregory.net/rapid"
)

// ---------------------------------------------------------------------------
// C12 - Policy ref advances only to verified descendants that verification accepts
// ---------------------------------------------------------------------------

type c12Op struct {
	Op   string   `json:"op"`             // stage | apply | discard | tamper | push | other
	Muts []string `json:"muts,omitempty"` // stage: mutation operators applied to the last staged spec
	Ref  string   `json:"ref,omitempty"`  // tamper: which ref
	To   string   `json:"to,omitempty"`   // tamper: ancestor | unrelated | delete | other-ref
	// Fault (apply only): the k-th storage call Apply makes returns an error (0: none;
	// beyond the number of calls Apply makes: no effect)
	Fault int `json:"fault,omitempty"`
}

type c12Case struct {
	Ops []c12Op `json:"ops"`
}

var c12StageOps = []string{"none", "change-main-rule", "targets-bump", "root-bump", "root-add-principal", "root-rotate", "root-signed-by-new-only", "root-signed-by-foreign", "root-unsigned",
	"targets-resigned-untrusted", "targets-unsigned", "targets-lower", "root-lower", "add-delegated", "add-delegated-badsig", "drop-delegated", "orphan-delegated"}

func genC12(rt *rapid.T) c12Case {
	c := c12Case{}
	n := rapid.IntRange(2, 12).Draw(rt, "nops")
	for i := 0; i < n; i++ {
		op := c12Op{Op: rapid.SampledFrom([]string{"stage", "stage", "stage", "apply", "apply", "apply", "discard", "tamper", "push", "other"}).Draw(rt, "op")}
		switch op.Op {
		case "stage":
			k := rapid.IntRange(1, 2).Draw(rt, "nmuts")
			for j := 0; j < k; j++ {
				// mostly benign edits, sometimes a breaking one
				if rapid.IntRange(0, 2).Draw(rt, "benign") != 0 {
					op.Muts = append(op.Muts, rapid.SampledFrom(c12StageOps[:6]).Draw(rt, "mut"))
				} else {
					op.Muts = append(op.Muts, rapid.SampledFrom(c12StageOps).Draw(rt, "mut"))
				}
			}
		case "apply":
			if rapid.IntRange(0, 3).Draw(rt, "faulty") == 0 {
				op.Fault = rapid.IntRange(1, 45).Draw(rt, "faultat")
			}
		case "tamper":
			op.Ref = rapid.SampledFrom([]string{policy.PolicyRef, policy.PolicyStagingRef}).Draw(rt, "tref")
			op.To = rapid.SampledFrom([]string{"ancestor", "unrelated", "delete", "other-ref"}).Draw(rt, "tto")
		}
		c.Ops = append(c.Ops, op)
	}
	return c
}

func refOrZero(st gitstore.Storer, ref string) string {
	h, err := st.GetReference(ref)
	if err != nil {
		return ""
	}
	return h.String()
}

func latestEntryTarget(chain []*kit.RawEntry, ref string) string {
	t := ""
	for _, e := range chain {
		if e.Ref == ref && (e.Kind == "reference" || e.Kind == "propagation") {
			t = e.Target
		}
	}
	return t
}

func runC12(t *testing.T, s *kit.Session, c c12Case) *kit.Failure {
	rsl.VerifResetCache()
	st := kit.NewMemStore()
	pool, err := kit.BuildCommitPool(st)
	if err != nil {
		panic(err)
	}
	ctx := context.Background()
	staged := c02Base()     // the spec last committed to staging
	var applied *kit.PolicySpec
	hasStaged := false
	applies, tampered, rootChanges := 0, 0, 0
	pushN := 0
	faultedApplies := 0
	for i, op := range c.Ops {
		chainBefore, err := kit.WalkChain(st, kit.RSLRef)
		if err != nil {
			return &kit.Failure{Cause: "chain-unreadable", Msg: err.Error()}
		}
		polBefore, stgBefore := refOrZero(st, policy.PolicyRef), refOrZero(st, policy.PolicyStagingRef)
		inSync := func() bool {
			return latestEntryTarget(chainBefore, policy.PolicyRef) == polBefore && latestEntryTarget(chainBefore, policy.PolicyStagingRef) == stgBefore
		}()
		var opErr error
		fail := func(cause, f string, a ...any) *kit.Failure {
			return &kit.Failure{Cause: cause, Msg: fmt.Sprintf("op %d %+v (err=%v): %s", i, op, opErr, fmt.Sprintf(f, a...))}
		}
		switch op.Op {
		case "stage":
			next := cloneSpec(staged)
			for _, m := range op.Muts {
				c02MutateNoRand(&next, m)
				if m == "root-rotate" || m == "root-add-principal" {
					rootChanges++
				}
			}
			md, err := kit.BuildStateMetadata(&next)
			if err != nil {
				return &kit.Failure{Cause: "harness", Msg: err.Error()}
			}
			opErr = (&policy.State{Metadata: md}).Commit(st, "stage", true, false)
			if opErr == nil {
				staged, hasStaged = next, true
			}
		case "apply":
			if op.Fault > 0 {
				// a storage failure at one step of Apply: whatever it returns, the
				// invariants below hold (a failed Apply moves nothing and records nothing)
				fs := kit.NewFaultStore(st)
				fs.FailAt = op.Fault
				opErr = policy.Apply(ctx, fs, false)
				rsl.VerifResetCache()
				if fs.Injected {
					faultedApplies++
				}
			} else {
				opErr = policy.Apply(ctx, st, false)
			}
		case "discard":
			opErr = policy.Discard(st)
		case "tamper":
			tampered++
			cur := refOrZero(st, op.Ref)
			switch op.To {
			case "delete":
				opErr = st.DeleteReference(op.Ref)
			case "unrelated":
				opErr = st.SetReference(op.Ref, pool.IDs[4])
			case "other-ref":
				other := policy.PolicyRef
				if op.Ref == policy.PolicyRef {
					other = policy.PolicyStagingRef
				}
				if o := refOrZero(st, other); o != "" {
					opErr = st.SetReference(op.Ref, kit.HashOf(o))
				}
			case "ancestor":
				if cur != "" {
					if ps, _ := st.GetCommitParentIDs(kit.HashOf(cur)); len(ps) > 0 {
						opErr = st.SetReference(op.Ref, ps[0])
					}
				}
			}
		case "push":
			// a push to main by whoever the applied policy authorises
			signer := -1
			if applied != nil && applied.Targets != nil {
				r := applied.Targets.Rules[0]
				signer = applied.Targets.Principals[r.Principals[0]].Keys[0]
			}
			pushN++
			commit, err := st.RawCommit(mustTree(st, pushN), parentsOf(st, "refs/heads/main"), fmt.Sprintf("push %d\n", pushN), nil)
			if err != nil {
				return &kit.Failure{Cause: "harness", Msg: err.Error()}
			}
			_ = st.SetReference("refs/heads/main", commit)
			e := rsl.NewReferenceEntry("refs/heads/main", commit)
			if signer >= 0 {
				opErr = e.CommitUsingSpecificKey(st, kit.Key(signer).PEM)
			} else {
				opErr = e.Commit(st, false)
			}
		case "other":
			opErr = rsl.NewReferenceEntry("refs/heads/unrelated", pool.IDs[i%4]).Commit(st, false)
		}
		rsl.VerifResetCache()
		chainAfter, err := kit.WalkChain(st, kit.RSLRef)
		if err != nil {
			return fail("chain-unreadable", "%v", err)
		}
		if d := kit.CheckChain(chainAfter); d != "" {
			return fail("chain-invalid", "%s", d)
		}
		polAfter, stgAfter := refOrZero(st, policy.PolicyRef), refOrZero(st, policy.PolicyStagingRef)
		newEntries := chainAfter[len(chainBefore):]
		if op.Op != "tamper" && op.Op != "apply" && polAfter != polBefore {
			return fail("policy-ref-moved-outside-apply", "the policy reference moved from %s to %s", polBefore, polAfter)
		}
		switch op.Op {
		case "apply":
			if opErr != nil {
				if polAfter != polBefore {
					return fail("failed-apply-moved-policy", "Apply failed but the policy reference moved")
				}
				nPolicyEntries := 0
				for _, e := range newEntries {
					if e.Ref == policy.PolicyRef {
						nPolicyEntries++
					}
				}
				if nPolicyEntries != 0 {
					return fail("failed-apply-recorded-entry", "Apply failed but recorded a policy entry")
				}
				break
			}
			applies++
			if !inSync {
				return fail("apply-out-of-sync", "Apply succeeded although the policy or staging reference disagreed with its latest log entry (policy ref %s / entry %s; staging ref %s / entry %s)", polBefore, latestEntryTarget(chainBefore, policy.PolicyRef), stgBefore, latestEntryTarget(chainBefore, policy.PolicyStagingRef))
			}
			// the policy ref is now the staging tip, which descends from the previous policy tip
			if polAfter != stgAfter {
				return fail("apply-not-staging-tip", "after Apply the policy reference (%s) is not the staging tip (%s)", polAfter, stgAfter)
			}
			if polBefore != "" {
				knows, err := st.KnowsCommit(kit.HashOf(polAfter), kit.HashOf(polBefore))
				if err != nil || !knows {
					return fail("apply-not-descendant", "the applied state does not descend from the previous policy state")
				}
			}
			nPolicyEntries := 0
			for _, e := range newEntries {
				if e.Ref == policy.PolicyRef {
					nPolicyEntries++
					if e.Target != polAfter {
						return fail("apply-entry-mismatch", "the recorded policy entry names %s, the policy reference is %s", e.Target, polAfter)
					}
				}
			}
			if nPolicyEntries != 1 {
				return fail("apply-entry-count", "Apply recorded %d policy entries", nPolicyEntries)
			}
			if hasStaged {
				sp := cloneSpec(staged)
				applied = &sp
			}
			// writer <-> verifier: what Apply published must be acceptable to verification
			if _, err := policy.LoadCurrentState(ctx, st, policy.PolicyRef); err != nil {
				return fail("published-state-rejected", "Apply published a policy state that LoadCurrentState rejects: %v", err)
			}
			if applied != nil && applied.Targets != nil {
				probe := st.Snapshot()
				r := applied.Targets.Rules[0]
				signer := applied.Targets.Principals[r.Principals[0]].Keys[0]
				commit, err := probe.RawCommit(mustTree(probe, 900+i), parentsOf(probe, "refs/heads/probe"), "probe\n", nil)
				if err != nil {
					return &kit.Failure{Cause: "harness", Msg: err.Error()}
				}
				if err := rsl.NewReferenceEntry("refs/heads/main", commit).CommitUsingSpecificKey(probe, kit.Key(signer).PEM); err != nil {
					return &kit.Failure{Cause: "harness", Msg: err.Error()}
				}
				rsl.VerifResetCache()
				if _, err := policy.NewPolicyVerifier(probe).VerifyRef(ctx, "refs/heads/main"); err != nil {
					return fail("published-state-rejected", "after Apply, a push to main by the principal the new policy authorises (key %d) does not verify: %v", signer, err)
				}
				rsl.VerifResetCache()
			}
		case "discard":
			if opErr == nil {
				if polAfter != "" && stgAfter != polAfter {
					return fail("discard-left-staging", "after Discard staging (%s) differs from the applied policy (%s)", stgAfter, polAfter)
				}
				if polAfter == "" && stgAfter != "" {
					return fail("discard-left-staging", "after Discard without an applied policy, staging still exists")
				}
				hasStaged = false
				if applied != nil {
					staged = cloneSpec(*applied)
				} else {
					staged = c02Base()
				}
			}
		}
	}
	classes := []string{}
	if applies >= 2 {
		classes = append(classes, "two_or_more_applies")
	}
	if faultedApplies > 0 {
		classes = append(classes, "apply_with_storage_fault")
	}
	if tampered > 0 {
		classes = append(classes, "tampering")
	}
	if rootChanges > 0 {
		classes = append(classes, "root_change_staged")
	}
	s.Observe(c, (applies >= 2 && rootChanges > 0) || tampered > 0, classes...)
	return nil
}

// c02MutateNoRand applies a C02 mutation operator without drawing randomness.
func c02MutateNoRand(s *kit.PolicySpec, op string) {
	switch op {
	case "add-delegated-badsig":
		if s.Delegated == nil {
			s.Delegated = map[string]kit.FileSpec{}
		}
		s.Delegated["team-a"] = kit.FileSpec{Signers: []int{wgUnknownKey}, Principals: []kit.PrincipalSpec{keyPrin(4)},
			Rules: []kit.RuleSpec{{Name: "team-a-sub", Patterns: []string{"git:refs/heads/a/x"}, Principals: []int{0}, Threshold: 1}}}
	default:
		c02Mutate(nil, s, op)
	}
}

func mustTree(st kit.RawStore, n int) githash.Hash {
	blob, err := st.WriteBlob([]byte(fmt.Sprintf("c12 content %d\n", n)))
	if err != nil {
		panic(err)
	}
	tree, err := st.WriteTree([]gitstore.TreeEntry{{Path: "f", ID: blob}})
	if err != nil {
		panic(err)
	}
	return tree
}

func parentsOf(st kit.RawStore, ref string) []githash.Hash {
	tip, err := st.GetReference(ref)
	if err != nil {
		if errors.Is(err, gitstore.ErrReferenceNotFound) {
			return nil
		}
		panic(err)
	}
	return []githash.Hash{tip}
}

func TestC12(t *testing.T) {
	s := kit.Open(t, "C12")
	run := func(c c12Case) *kit.Failure { return runC12(t, s, c) }
	api := func(c c12APICase) *kit.Failure { return runC12API(t, s, c) }
	if rf := kit.Replay(t); rf != nil {
		switch rf.Kind {
		case "storer":
			kit.DoReplay(s, t, rf, run)
		case "api":
			kit.DoReplay(s, t, rf, api)
		}
		return
	}
	s.SetRule("two layers. Storer layer (in-memory Storer): rapid sequences of 2-12 operations {State.Commit of an edited policy state (17 edit operators: rule change, version bumps/lowerings, root principal added / rotated / replaced and signed by old, new-only, foreign or no keys, rule file re-signed by an untrusted key or unsigned, delegated file added well or badly signed / dropped / orphaned), policy.Apply (one in four with the k-th storage call failing), policy.Discard, tampering with refs/gittuf/policy or policy-staging (ancestor, unrelated commit, the other ref, delete), an authorised push to main, an unrelated entry}; after every step: the policy ref moves only in a successful Apply, to the staging tip, a descendant of the previous policy tip, with exactly one policy entry naming it; Apply fails and changes nothing when a ref disagrees with its latest entry; Discard leaves staging equal to policy; after every successful Apply LoadCurrentState succeeds and a push by the newly authorised principal verifies. API layer (real repository through experimental/gittuf): InitializeRoot, root and rule-file key / threshold / rule / global-rule / hook edits, signing, StagePolicy, ApplyPolicy, DiscardPolicy by signers inside and outside the role; a root-of-trust change by a non-root signer must fail with ErrUnauthorizedKey and change nothing; hooks run for a signer are exactly those assigned to that signer's principal. Non-trivial: >=2 successful applies with a root change between them, or a tampering step")
	kit.Campaign(s, t, "storer", "storer", s.Budget(6_000, 150_000), genC12, run)
	kit.Campaign(s, t, "api", "api", s.Budget(32, 600), genC12API, api)
}
