//go:build verif

package verifchecks

import (
	"bytes"
	"fmt"
	"os"
	"reflect"
	"sort"
	"testing"

	kit "github.com/gittuf/gittuf/internal/verifkit"
	"github.com/gittuf/gittuf/pkg/githash"
	"github.com/gittuf/gittuf/pkg/gitstore"
	"pgregory.net/rapid"
)

// memdiff: differential self-check of the harness's in-memory Storer against
// real Git through gitinterface. Not one of the listed properties: it guards
// the soundness of every memstore-backed check.

type mdOp struct {
	Op    string   `json:"op"`
	Ref   string   `json:"ref,omitempty"`
	Paths []string `json:"paths,omitempty"` // for tree
	Blobs []int    `json:"blobs,omitempty"`
	A     int      `json:"a,omitempty"` // object indices
	B     int      `json:"b,omitempty"`
	Msg   string   `json:"msg,omitempty"`
	Key   int      `json:"key,omitempty"`
}

type mdCase struct {
	Ops []mdOp `json:"ops"`
}

var mdRefs = []string{"refs/heads/a", "refs/heads/b", "refs/gittuf/x", "refs/tags/t"}
var mdPaths = []string{"a", "b", "d/a", "d/b", "d/e/f", "g.txt", "d.x", "z/y"}

func genMD(rt *rapid.T) mdCase {
	n := rapid.IntRange(3, 14).Draw(rt, "n")
	c := mdCase{}
	for i := 0; i < n; i++ {
		kind := rapid.SampledFrom([]string{"tree", "tree", "commit", "commit", "commit", "commitkey", "rawmerge", "setref", "delref", "tag", "mergetree"}).Draw(rt, "op")
		op := mdOp{Op: kind}
		switch kind {
		case "tree":
			k := rapid.IntRange(0, 4).Draw(rt, "k")
			ps := rapid.SliceOfNDistinct(rapid.SampledFrom(mdPaths), k, k, func(s string) string { return s }).Draw(rt, "paths")
			// avoid file/dir collisions: "d" is always a directory; "d.x" is a file
			op.Paths = ps
			for range ps {
				op.Blobs = append(op.Blobs, rapid.IntRange(0, 3).Draw(rt, "blob"))
			}
		case "commit", "commitkey":
			op.Ref = rapid.SampledFrom(mdRefs[:3]).Draw(rt, "ref")
			op.A = rapid.IntRange(0, 20).Draw(rt, "tree")
			op.Msg = rapid.SampledFrom([]string{"m", "msg\n", "two\nlines", "  padded  ", "x\n\ny\n"}).Draw(rt, "msg")
			op.Key = rapid.IntRange(0, 2).Draw(rt, "key")
		case "rawmerge":
			op.A = rapid.IntRange(0, 20).Draw(rt, "p1")
			op.B = rapid.IntRange(0, 20).Draw(rt, "p2")
			op.Key = rapid.IntRange(0, 20).Draw(rt, "tree")
			op.Ref = rapid.SampledFrom(mdRefs[:2]).Draw(rt, "ref")
		case "setref":
			op.Ref = rapid.SampledFrom(mdRefs[:3]).Draw(rt, "ref")
			op.A = rapid.IntRange(0, 20).Draw(rt, "commit")
		case "delref":
			op.Ref = rapid.SampledFrom(mdRefs[:3]).Draw(rt, "ref")
		case "tag":
			op.A = rapid.IntRange(0, 20).Draw(rt, "commit")
			op.Key = rapid.IntRange(0, 2).Draw(rt, "key")
		case "mergetree":
			op.A = rapid.IntRange(0, 20).Draw(rt, "a")
			op.B = rapid.IntRange(0, 20).Draw(rt, "b")
		}
		c.Ops = append(c.Ops, op)
	}
	return c
}

func pick(xs []githash.Hash, i int) githash.Hash {
	if len(xs) == 0 {
		return nil
	}
	return xs[i%len(xs)]
}

func errEq(a, b error) bool { return (a == nil) == (b == nil) }

func runMD(t *testing.T, s *kit.Session, c mdCase) *kit.Failure {
	dir, err := os.MkdirTemp("", "memdiff-")
	if err != nil {
		panic(err)
	}
	defer os.RemoveAll(dir)
	g := kit.NewGitStore(t, dir, true)
	m := kit.NewMemStore()
	fail := func(f string, a ...any) *kit.Failure {
		return &kit.Failure{Cause: "backend-disagreement", Msg: fmt.Sprintf(f, a...)}
	}
	stores := []kit.RawStore{m, g}
	var trees, commits, tags [2][]githash.Hash
	et, _ := m.EmptyTree()
	trees[0] = append(trees[0], et)
	trees[1] = append(trees[1], et)
	merges := 0
	for i, op := range c.Ops {
		var res [2]string
		for b, st := range stores {
			switch op.Op {
			case "tree":
				var entries []gitstore.TreeEntry
				for j, p := range op.Paths {
					id, err := st.WriteBlob([]byte(fmt.Sprintf("blob-%d\n", op.Blobs[j])))
					if err != nil {
						return fail("op %d WriteBlob[%d]: %v", i, b, err)
					}
					entries = append(entries, gitstore.TreeEntry{Path: p, ID: id, Kind: gitstore.KindBlob})
				}
				id, err := st.WriteTree(entries)
				res[b] = fmt.Sprintf("%s %v", id, err != nil)
				if err == nil {
					trees[b] = append(trees[b], id)
				}
			case "commit":
				id, err := st.Commit(pick(trees[b], op.A), op.Ref, op.Msg, false)
				res[b] = fmt.Sprintf("%s %v", id, err != nil)
				if err == nil {
					commits[b] = append(commits[b], id)
				}
			case "commitkey":
				id, err := st.CommitUsingSpecificKey(pick(trees[b], op.A), op.Ref, op.Msg, kit.Key(op.Key).PEM)
				res[b] = fmt.Sprintf("%s %v", id, err != nil)
				if err == nil {
					commits[b] = append(commits[b], id)
				}
			case "rawmerge":
				if len(commits[b]) < 2 {
					continue
				}
				p1, p2 := pick(commits[b], op.A), pick(commits[b], op.B)
				if p1.Equal(p2) {
					continue
				}
				id, err := st.RawCommit(pick(trees[b], op.Key), []githash.Hash{p1, p2}, "merge\n", nil)
				res[b] = fmt.Sprintf("%s %v", id, err != nil)
				if err == nil {
					commits[b] = append(commits[b], id)
					if err := st.SetReference(op.Ref, id); err != nil {
						return fail("op %d SetReference[%d]: %v", i, b, err)
					}
					merges++
				}
			case "setref":
				if len(commits[b]) == 0 {
					continue
				}
				err := st.SetReference(op.Ref, pick(commits[b], op.A))
				res[b] = fmt.Sprintf("%v", err != nil)
			case "delref":
				err := st.DeleteReference(op.Ref)
				res[b] = fmt.Sprintf("%v", err != nil)
			case "tag":
				if len(commits[b]) == 0 {
					continue
				}
				id, err := st.RawTag(pick(commits[b], op.A), "t", "tag message", kit.Key(op.Key))
				res[b] = fmt.Sprintf("%s %v", id, err != nil)
				if err == nil {
					tags[b] = append(tags[b], id)
				}
			case "mergetree":
				if len(commits[b]) == 0 {
					continue
				}
				a, bb := pick(commits[b], op.A), pick(commits[b], op.B)
				id, err := st.GetMergeTree(a, bb)
				if err != nil {
					res[b] = "conflict-or-error"
				} else {
					res[b] = id.String()
				}
				id2, err2 := st.GetMergeTree(st.ZeroHash(), bb)
				res[b] += fmt.Sprintf(" | %s %v", id2, err2 != nil)
			}
		}
		if res[0] != res[1] {
			return fail("op %d %+v: memstore=%q git=%q", i, op, res[0], res[1])
		}
	}
	// compare every read on every object
	if !reflect.DeepEqual(hashStrs(commits[0]), hashStrs(commits[1])) {
		return fail("commit ids differ")
	}
	r0, _ := m.Refs()
	r1, _ := g.Refs()
	if !reflect.DeepEqual(r0, r1) {
		return fail("refs differ: mem=%v git=%v", r0, r1)
	}
	for _, ref := range mdRefs {
		a, ea := m.GetReference(ref)
		b, eb := g.GetReference(ref)
		if !errEq(ea, eb) || !a.Equal(b) {
			return fail("GetReference(%s): mem=%s,%v git=%s,%v", ref, a, ea, b, eb)
		}
	}
	all := append(append(append([]githash.Hash{}, commits[0]...), trees[0]...), tags[0]...)
	if len(all) > 10 {
		all = all[len(all)-10:]
	}
	for _, id := range all {
		{
			a, ea := m.GetCommitMessage(id)
			b, eb := g.GetCommitMessage(id)
			if !errEq(ea, eb) || a != b {
				return fail("GetCommitMessage(%s): mem=%q,%v git=%q,%v", id, a, ea, b, eb)
			}
		}
		{
			a, ea := m.GetCommitParentIDs(id)
			b, eb := g.GetCommitParentIDs(id)
			if !errEq(ea, eb) || !reflect.DeepEqual(hashStrs(a), hashStrs(b)) || (a == nil) != (b == nil) {
				return fail("GetCommitParentIDs(%s): mem=%v,%v git=%v,%v", id, a, ea, b, eb)
			}
		}
		{
			a, ea := m.GetCommitTreeID(id)
			b, eb := g.GetCommitTreeID(id)
			if !errEq(ea, eb) || (ea == nil && !a.Equal(b)) {
				return fail("GetCommitTreeID(%s): mem=%v,%v git=%v,%v", id, a, ea, b, eb)
			}
		}
		{
			a, ea := m.GetFilePathsChangedByCommit(id)
			b, eb := g.GetFilePathsChangedByCommit(id)
			if !errEq(ea, eb) || !reflect.DeepEqual(a, b) {
				return fail("GetFilePathsChangedByCommit(%s): mem=%#v,%v git=%#v,%v", id, a, ea, b, eb)
			}
		}
		{
			pa, sa, ea := m.GetObjectSignature(id)
			pb, sb, eb := g.GetObjectSignature(id)
			if !errEq(ea, eb) || !bytes.Equal(pa, pb) || !bytes.Equal(bytes.TrimSpace(sa), bytes.TrimSpace(sb)) {
				return fail("GetObjectSignature(%s): mem=%q/%q,%v git=%q/%q,%v", id, pa, sa, ea, pb, sb, eb)
			}
		}
		{
			a, ea := m.GetTagTarget(id)
			b, eb := g.GetTagTarget(id)
			if !errEq(ea, eb) || (ea == nil && !a.Equal(b)) {
				return fail("GetTagTarget(%s): mem=%v,%v git=%v,%v", id, a, ea, b, eb)
			}
		}
		{
			a, ea := m.GetEntriesInTree(id)
			b, eb := g.GetEntriesInTree(id)
			if !errEq(ea, eb) || !reflect.DeepEqual(fmt.Sprint(a), fmt.Sprint(b)) || (a == nil) != (b == nil) {
				return fail("GetEntriesInTree(%s): mem=%v,%v git=%v,%v", id, a, ea, b, eb)
			}
		}
		{
			a, ea := m.GetAllFilesInTree(id)
			b, eb := g.GetAllFilesInTree(id)
			if !errEq(ea, eb) || !reflect.DeepEqual(fmt.Sprint(a), fmt.Sprint(b)) || (a == nil) != (b == nil) {
				return fail("GetAllFilesInTree(%s): mem=%v,%v git=%v,%v", id, a, ea, b, eb)
			}
		}
		for _, p := range []string{"a", "d", "d/e", "d/e/f", "nope", "d/"} {
			a, ea := m.GetPathIDInTree(id, p)
			b, eb := g.GetPathIDInTree(id, p)
			if !errEq(ea, eb) || (ea == nil && !a.Equal(b)) {
				return fail("GetPathIDInTree(%s,%s): mem=%v,%v git=%v,%v", id, p, a, ea, b, eb)
			}
		}
		{
			a, ea := m.ReadBlob(id)
			b, eb := g.ReadBlob(id)
			if !errEq(ea, eb) || !bytes.Equal(a, b) {
				return fail("ReadBlob(%s): mem=%q,%v git=%q,%v", id, a, ea, b, eb)
			}
		}
	}
	pairs := commits[0]
	if len(pairs) > 6 {
		pairs = pairs[len(pairs)-6:]
	}
	for _, x := range pairs {
		for _, y := range pairs {
			a, ea := m.KnowsCommit(x, y)
			b, eb := g.KnowsCommit(x, y)
			if !errEq(ea, eb) || a != b {
				return fail("KnowsCommit(%s,%s): mem=%v,%v git=%v,%v", x, y, a, ea, b, eb)
			}
			ra, ea := m.GetCommitsBetweenRange(x, y)
			rb, eb := g.GetCommitsBetweenRange(x, y)
			if !errEq(ea, eb) || !reflect.DeepEqual(hashStrs(ra), hashStrs(rb)) {
				return fail("GetCommitsBetweenRange(%s,%s): mem=%v,%v git=%v,%v", x, y, ra, ea, rb, eb)
			}
		}
		ra, ea := m.GetCommitsBetweenRange(x, nil)
		rb, eb := g.GetCommitsBetweenRange(x, nil)
		if !errEq(ea, eb) || !reflect.DeepEqual(hashStrs(ra), hashStrs(rb)) {
			return fail("GetCommitsBetweenRange(%s,nil): mem=%v,%v git=%v,%v", x, ra, ea, rb, eb)
		}
	}
	cl := []string{"ops"}
	if merges > 0 {
		cl = append(cl, "has_merge")
	}
	if len(tags[0]) > 0 {
		cl = append(cl, "has_tag")
	}
	s.Observe(c, len(commits[0]) >= 2, cl...)
	return nil
}

func hashStrs(hs []githash.Hash) []string {
	out := make([]string, 0, len(hs))
	for _, h := range hs {
		out = append(out, h.String())
	}
	return out
}

func sortedKeys[V any](m map[string]V) []string {
	out := make([]string, 0, len(m))
	for k := range m {
		out = append(out, k)
	}
	sort.Strings(out)
	return out
}

func TestMEMDIFF(t *testing.T) {
	s := kit.Open(t, "MEMDIFF")
	run := func(c mdCase) *kit.Failure { return runMD(t, s, c) }
	if rf := kit.Replay(t); rf != nil {
		kit.DoReplay(s, t, rf, run)
		return
	}
	s.SetRule("random Storer operation sequences applied to memstore and to a real repository; every return value and id compared; non-trivial = at least 2 commits")
	kit.Campaign(s, t, "memdiff", "memdiff", s.Budget(128, 3200), genMD, run)
}
