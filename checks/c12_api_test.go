//go:build verif

package verifchecks

import (
	"context"
	"errors"
	"fmt"
	"os"
	"path/filepath"
	"sort"
	"strings"
	"testing"

	gittuf "github.com/gittuf/gittuf/experimental/gittuf"
	rootopts "github.com/gittuf/gittuf/experimental/gittuf/options/root"
	trustpolicyopts "github.com/gittuf/gittuf/experimental/gittuf/options/trustpolicy"
	"github.com/gittuf/gittuf/internal/policy"
	"github.com/gittuf/gittuf/internal/signerverifier/ssh"
	"github.com/gittuf/gittuf/internal/tuf"
	tufv01 "github.com/gittuf/gittuf/internal/tuf/v01"
	kit "github.com/gittuf/gittuf/internal/verifkit"
	"github.com/gittuf/gittuf/pkg/rsl"
	"pgregory.net/rapid"
)

// API layer of C12 (and the hook selection clause of C20): experimental/gittuf
// on a real repository.

type c12APIOp struct {
	Op     string `json:"op"`
	Signer int    `json:"signer"`        // key index performing the operation
	Key    int    `json:"key,omitempty"` // key the operation is about
	N      int    `json:"n,omitempty"`
}

type c12APICase struct {
	Ops []c12APIOp `json:"ops"`
}

var c12APIOps = []string{"add-root-key", "remove-root-key", "root-threshold", "add-targets-key", "remove-targets-key", "targets-threshold", "add-global-rule", "remove-global-rule",
	"sign-root", "init-targets", "add-rule", "sign-targets", "stage", "apply", "discard", "add-hook", "invoke-hooks", "set-location"}

func genC12API(rt *rapid.T) c12APICase {
	c := c12APICase{}
	n := rapid.IntRange(3, 12).Draw(rt, "nops")
	for i := 0; i < n; i++ {
		op := c12APIOp{Op: rapid.SampledFrom(c12APIOps).Draw(rt, "op")}
		// key 0 is the initial root; keys 1-2 may become root/targets keys; key 3 is an outsider
		op.Signer = rapid.SampledFrom([]int{0, 0, 0, 1, 2, 3}).Draw(rt, "signer")
		op.Key = rapid.IntRange(0, 3).Draw(rt, "key")
		op.N = rapid.IntRange(1, 3).Draw(rt, "n")
		c.Ops = append(c.Ops, op)
	}
	return c
}

type c12Signers struct {
	dir     string
	signers map[int]*ssh.Signer
}

func (k *c12Signers) get(i int) *ssh.Signer {
	if s, ok := k.signers[i]; ok {
		return s
	}
	p := filepath.Join(k.dir, fmt.Sprintf("key%d", i))
	if err := os.WriteFile(p, kit.Key(i).PEM, 0o600); err != nil {
		panic(err)
	}
	s, err := ssh.NewSignerFromFile(p)
	if err != nil {
		panic(err)
	}
	k.signers[i] = s
	return s
}

func (k *c12Signers) principal(i int) tuf.Principal {
	return tufv01.NewKeyFromSSLibKey(k.get(i).MetadataKey())
}

func runC12API(t *testing.T, s *kit.Session, c c12APICase) *kit.Failure {
	rsl.VerifResetCache()
	os.Setenv("GITTUF_DEV", "1")
	tmp, err := os.MkdirTemp("", "c12api-")
	if err != nil {
		panic(err)
	}
	defer os.RemoveAll(tmp)
	g := kit.NewGitStore(t, filepath.Join(tmp, "repo"), false)
	keys := &c12Signers{dir: tmp, signers: map[int]*ssh.Signer{}}
	repo := gittuf.VerifWrap(g.Repository)
	ctx := context.Background()
	withEntry := trustpolicyopts.WithRSLEntry()
	if err := repo.InitializeRoot(ctx, keys.get(0), false, rootopts.WithRSLEntry()); err != nil {
		return &kit.Failure{Cause: "harness", Msg: "InitializeRoot: " + err.Error()}
	}
	keyID := func(i int) string { return kit.Key(i).KeyID }
	// model of the staged root: which keys are root principals
	rootKeys := map[int]bool{0: true}
	appliedRootKeys := map[int]bool{}
	appliedOnce := false
	hookOwners := map[string]map[int]bool{} // hook name -> keys (principals) assigned, as applied
	stagedHooks := map[string]map[int]bool{}
	unauthorizedRefused := 0
	rootStagedAt := func() (string, string) {
		return refOrZero(g, policy.PolicyStagingRef), refOrZero(g, policy.PolicyRef)
	}
	for i, op := range c.Ops {
		signer := keys.get(op.Signer)
		stgBefore, polBefore := rootStagedAt()
		chainBefore, _ := kit.WalkChain(g, kit.RSLRef)
		isRootChange := false
		var opErr error
		switch op.Op {
		case "add-root-key":
			isRootChange = true
			opErr = repo.AddRootKey(ctx, signer, keys.principal(op.Key), false, withEntry)
			if opErr == nil {
				rootKeys[op.Key] = true
			}
		case "remove-root-key":
			isRootChange = true
			opErr = repo.RemoveRootKey(ctx, signer, keyID(op.Key), false, withEntry)
			if opErr == nil {
				delete(rootKeys, op.Key)
			}
		case "root-threshold":
			isRootChange = true
			opErr = repo.UpdateRootThreshold(ctx, signer, op.N, false, withEntry)
		case "add-targets-key":
			isRootChange = true
			opErr = repo.AddTopLevelTargetsKey(ctx, signer, keys.principal(op.Key), false, withEntry)
		case "remove-targets-key":
			isRootChange = true
			opErr = repo.RemoveTopLevelTargetsKey(ctx, signer, keyID(op.Key), false, withEntry)
		case "targets-threshold":
			isRootChange = true
			opErr = repo.UpdateTopLevelTargetsThreshold(ctx, signer, op.N, false, withEntry)
		case "add-global-rule":
			isRootChange = true
			opErr = repo.AddGlobalRuleThreshold(ctx, signer, fmt.Sprintf("g%d", op.N), []string{"git:refs/heads/main"}, op.N, false, withEntry)
		case "remove-global-rule":
			isRootChange = true
			opErr = repo.RemoveGlobalRule(ctx, signer, fmt.Sprintf("g%d", op.N), false, withEntry)
		case "set-location":
			isRootChange = true
			opErr = repo.SetRepositoryLocation(ctx, signer, fmt.Sprintf("https://example.com/repo%d", op.N), false, withEntry)
		case "add-hook":
			isRootChange = true
			name := fmt.Sprintf("hook%d", op.N)
			opErr = repo.AddHook(ctx, signer, []tuf.HookStage{tuf.HookStagePreCommit}, name, []byte(fmt.Sprintf("return %d", op.N)), tuf.HookEnvironmentLua, []string{keyID(op.Key)}, 5, false, withEntry)
			if opErr == nil {
				stagedHooks[name] = map[int]bool{op.Key: true}
			}
		case "sign-root":
			opErr = repo.SignRoot(ctx, signer, false, withEntry)
		case "init-targets":
			opErr = repo.InitializeTargets(ctx, signer, policy.TargetsRoleName, false, withEntry)
		case "add-rule":
			if err := repo.AddPrincipalToTargets(ctx, signer, policy.TargetsRoleName, []tuf.Principal{keys.principal(op.Key)}, false, withEntry); err != nil {
				opErr = err
			} else {
				opErr = repo.AddDelegation(ctx, signer, policy.TargetsRoleName, fmt.Sprintf("rule%d", op.N), []string{keyID(op.Key)}, []string{fmt.Sprintf("git:refs/heads/b%d", op.N)}, 1, false, withEntry)
			}
		case "sign-targets":
			opErr = repo.SignTargets(ctx, signer, policy.TargetsRoleName, false, withEntry)
		case "stage":
			opErr = repo.StagePolicy(ctx, "", true, false)
		case "apply":
			opErr = repo.ApplyPolicy(ctx, "", true, false)
			if opErr == nil {
				appliedOnce = true
				appliedRootKeys = map[int]bool{}
				for k, v := range rootKeys {
					appliedRootKeys[k] = v
				}
				hookOwners = map[string]map[int]bool{}
				for k, v := range stagedHooks {
					hookOwners[k] = v
				}
			}
		case "discard":
			opErr = repo.DiscardPolicy()
			if opErr == nil {
				// the staged model falls back to what is applied
				rootKeys = map[int]bool{}
				for k, v := range appliedRootKeys {
					rootKeys[k] = v
				}
				stagedHooks = map[string]map[int]bool{}
				for k, v := range hookOwners {
					stagedHooks[k] = v
				}
			}
		case "invoke-hooks":
			if !appliedOnce {
				continue
			}
			codes, herr := repo.InvokeHooksForStage(ctx, signer, tuf.HookStagePreCommit)
			if os.Getenv("VERIF_DEBUG") != "" {
				t.Logf("op %d %+v: codes=%v err=%v", i, op, codes, herr)
			}
			// expected: exactly the applied hooks assigned to this signer's principal
			var want []string
			for name, owners := range hookOwners {
				if owners[op.Signer] {
					want = append(want, name)
				}
			}
			sort.Strings(want)
			var got []string
			for name := range codes {
				got = append(got, name)
			}
			sort.Strings(got)
			if herr == nil && fmt.Sprint(got) != fmt.Sprint(want) {
				return &kit.Failure{Cause: "wrong-hooks-run", Msg: fmt.Sprintf("op %d: hooks run for key %d: %v, the applied policy assigns it %v", i, op.Signer, got, want)}
			}
			if herr != nil && len(want) > 0 && !errors.Is(herr, tuf.ErrPrincipalNotFound) {
				// hooks assigned but an error: only acceptable if the policy cannot be loaded
				if _, lerr := policy.LoadCurrentState(ctx, g, policy.PolicyRef); lerr == nil {
					return &kit.Failure{Cause: "hooks-not-run", Msg: fmt.Sprintf("op %d: key %d has hooks %v assigned but InvokeHooksForStage failed: %v", i, op.Signer, want, herr)}
				}
			}
			if herr == nil && len(want) == 0 && len(got) > 0 {
				return &kit.Failure{Cause: "wrong-hooks-run", Msg: fmt.Sprintf("op %d: key %d ran hooks %v it is not assigned", i, op.Signer, got)}
			}
			s.Class("hook_selection_checked")
			continue
		}
		rsl.VerifResetCache()
		if os.Getenv("VERIF_DEBUG") != "" {
			t.Logf("op %d %+v: err=%v", i, op, opErr)
		}
		fail := func(cause, f string, a ...any) *kit.Failure {
			return &kit.Failure{Cause: cause, Msg: fmt.Sprintf("op %d %+v (err=%v): %s", i, op, opErr, fmt.Sprintf(f, a...))}
		}
		stgAfter, polAfter := rootStagedAt()
		chainAfter, err := kit.WalkChain(g, kit.RSLRef)
		if err != nil {
			return fail("chain-unreadable", "%v", err)
		}
		if d := kit.CheckChain(chainAfter); d != "" {
			return fail("chain-invalid", "%s", d)
		}
		if isRootChange && !rootKeysBefore(rootKeys, op, opErr)[op.Signer] {
			// the signer was not a root principal of the state being edited
			if opErr == nil {
				return fail("unauthorized-root-change-accepted", "key %d is not a root principal of the staged state but the root-of-trust change succeeded", op.Signer)
			}
			if errors.Is(opErr, gittuf.ErrUnauthorizedKey) {
				s.Class("refused_with_ErrUnauthorizedKey")
			} else if stgBefore != "" {
				// the staged state exists and loads: the refusal must name the reason
				if _, lerr := policy.LoadCurrentState(ctx, g, policy.PolicyStagingRef); lerr == nil && !strings.Contains(opErr.Error(), "unauthorized") {
					return fail("unauthorized-root-change-error", "expected ErrUnauthorizedKey")
				}
			}
			if stgAfter != stgBefore || polAfter != polBefore || len(chainAfter) != len(chainBefore) {
				return fail("refused-but-changed", "the refused change altered references or the log")
			}
			unauthorizedRefused++
		}
		if op.Op != "apply" && polAfter != polBefore {
			return fail("policy-ref-moved-outside-apply", "the policy reference moved")
		}
		if opErr != nil && (stgAfter != stgBefore || polAfter != polBefore) && op.Op != "add-rule" {
			return fail("failed-op-moved-refs", "the operation failed but moved a policy reference")
		}
		if op.Op == "apply" && opErr == nil {
			if polAfter != stgAfter {
				return fail("apply-not-staging-tip", "policy %s, staging %s", polAfter, stgAfter)
			}
			if _, err := policy.LoadCurrentState(ctx, g, policy.PolicyRef); err != nil {
				return fail("published-state-rejected", "ApplyPolicy published a state that LoadCurrentState rejects: %v", err)
			}
		}
	}
	classes := []string{"api_layer"}
	if unauthorizedRefused > 0 {
		classes = append(classes, "unauthorized_root_change_refused")
	}
	s.Observe(c, unauthorizedRefused > 0 || appliedOnce, classes...)
	return nil
}

// rootKeysBefore reconstructs the root principal set the operation was checked
// against (the model is updated after a successful operation).
func rootKeysBefore(rootKeys map[int]bool, op c12APIOp, opErr error) map[int]bool {
	m := map[int]bool{}
	for k, v := range rootKeys {
		m[k] = v
	}
	if opErr == nil {
		switch op.Op {
		case "add-root-key":
			// the key was added by this very operation unless it already was one
			if op.Key != op.Signer {
				delete(m, op.Key)
			}
		case "remove-root-key":
			m[op.Key] = true
		}
	}
	return m
}
