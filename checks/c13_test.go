//go:build verif

package verifchecks

import (
	"bytes"
	"encoding/json"
	"fmt"
	"sort"
	"strings"
	"testing"

	"github.com/gittuf/gittuf/internal/tuf"
	"github.com/gittuf/gittuf/internal/tuf/migrations"
	tufv01 "github.com/gittuf/gittuf/internal/tuf/v01"
	tufv02 "github.com/gittuf/gittuf/internal/tuf/v02"
	kit "github.com/gittuf/gittuf/internal/verifkit"
	"github.com/secure-systems-lab/go-securesystemslib/signerverifier"
	"pgregory.net/rapid"
)

// ---------------------------------------------------------------------------
// C13 - Policy metadata stays well formed under edits, serialisation and migration
// ---------------------------------------------------------------------------

type c13Op struct {
	Op        string   `json:"op"`
	Name      string   `json:"name,omitempty"`
	Prin      int      `json:"prin"`               // principal selector (see c13Principal)
	PrinIDs   []int    `json:"prin_ids,omitempty"` // for rules / hooks: selectors turned into ids
	Patterns  []string `json:"patterns,omitempty"`
	Threshold int      `json:"threshold,omitempty"`
	Names     []string `json:"names,omitempty"` // reorder
	Str       string   `json:"str,omitempty"`
	Stage     int      `json:"stage,omitempty"`
}

type c13Case struct {
	Kind string  `json:"kind"` // targets | root
	V01  bool    `json:"v01"`
	Ops  []c13Op `json:"ops"`
}

var c13RuleNames = []string{"r1", "r2", "r3", "r4", "gittuf-evil", tuf.AllowRuleName, "", "targets"}
var c13GlobalNames = []string{"g1", "g2", "g3"}

// c13Principal maps a selector to a principal: 0-3 keys, 4-5 persons, 6 nil, 7 a foreign type.
type foreignPrincipal struct{}

func (foreignPrincipal) ID() string                        { return "foreign" }
func (foreignPrincipal) Keys() []*signerverifier.SSLibKey  { return nil }
func (foreignPrincipal) CustomMetadata() map[string]string { return nil }

func c13Principal(sel int, v01 bool) tuf.Principal {
	switch {
	case sel >= 0 && sel <= 3:
		if v01 {
			return kit.Key(sel).V01()
		}
		return kit.Key(sel).V02()
	case sel == 4:
		return kit.Person("alice", map[string]string{"github": "alice+1"}, kit.Key(4))
	case sel == 5:
		return kit.Person("bob", nil, kit.Key(4), kit.Key(5))
	case sel == 6:
		return nil
	}
	return foreignPrincipal{}
}

func c13PrincipalID(sel int) string {
	switch {
	case sel >= 0 && sel <= 3:
		return kit.Key(sel).KeyID
	case sel == 4:
		return "alice"
	case sel == 5:
		return "bob"
	case sel == 6:
		return ""
	}
	return "no-such-principal"
}

func genC13(rt *rapid.T) c13Case {
	c := c13Case{Kind: rapid.SampledFrom([]string{"targets", "targets", "root"}).Draw(rt, "kind"), V01: rapid.IntRange(0, 2).Draw(rt, "v01") == 0}
	n := rapid.IntRange(1, 25).Draw(rt, "nops")
	for i := 0; i < n; i++ {
		var op c13Op
		sel := func(label string) int { return rapid.SampledFrom([]int{0, 0, 1, 1, 2, 3, 4, 5, 6, 7}).Draw(rt, label) }
		ids := func() []int {
			k := rapid.IntRange(0, 4).Draw(rt, "nids")
			out := []int{}
			for j := 0; j < k; j++ {
				out = append(out, rapid.SampledFrom([]int{0, 0, 1, 1, 2, 3, 4, 5, 7}).Draw(rt, "id"))
			}
			return out
		}
		pats := func() []string {
			k := rapid.IntRange(0, 2).Draw(rt, "npats")
			out := []string{}
			for j := 0; j < k; j++ {
				out = append(out, rapid.SampledFrom(append([]string{"[bad", "file:a?c"}, c06Patterns...)).Draw(rt, "pat"))
			}
			return out
		}
		if c.Kind == "targets" {
			op.Op = rapid.SampledFrom([]string{"addprin", "addprin", "addprin", "updprin", "rmprin", "addrule", "addrule", "addrule", "updrule", "rmrule", "reorder"}).Draw(rt, "op")
			switch op.Op {
			case "addprin", "updprin", "rmprin":
				op.Prin = sel("prin")
			case "addrule", "updrule":
				op.Name = rapid.SampledFrom(c13RuleNames).Draw(rt, "rname")
				op.PrinIDs = ids()
				op.Patterns = pats()
				op.Threshold = rapid.IntRange(-1, 4).Draw(rt, "thr")
			case "rmrule":
				op.Name = rapid.SampledFrom(c13RuleNames).Draw(rt, "rname")
			case "reorder":
				k := rapid.IntRange(0, 5).Draw(rt, "nnames")
				for j := 0; j < k; j++ {
					op.Names = append(op.Names, rapid.SampledFrom(c13RuleNames[:6]).Draw(rt, "oname"))
				}
				if rapid.Bool().Draw(rt, "exact") {
					op.Names = []string{"<current>"}
					op.Stage = rapid.IntRange(0, 5).Draw(rt, "rot")
				}
			}
		} else {
			op.Op = rapid.SampledFrom([]string{"addroot", "addroot", "delroot", "rootthr", "addprimary", "addprimary", "delprimary", "primarythr",
				"addglobal", "addglobal", "updglobal", "delglobal", "addprop", "updprop", "delprop", "enablectl", "disablectl", "addcontroller", "addnetwork",
				"addapp", "delapp", "enableapp", "disableapp", "addhook", "updhook", "rmhook", "setlocation"}).Draw(rt, "op")
			op.Prin = sel("prin")
			op.Threshold = rapid.IntRange(-1, 4).Draw(rt, "thr")
			op.Name = rapid.SampledFrom(c13GlobalNames).Draw(rt, "gname")
			op.Patterns = pats()
			op.PrinIDs = ids()
			op.Str = rapid.SampledFrom([]string{"threshold", "bfp", "https://example.com/a", "https://example.com/b", "app1", "app2"}).Draw(rt, "str")
			op.Stage = rapid.IntRange(0, 2).Draw(rt, "stage")
		}
		c.Ops = append(c.Ops, op)
	}
	return c
}

var c13Paths = append([]string{"file:abc", "file:a/c"}, c06Paths...)

func prinDesc(p tuf.Principal) string {
	if p == nil {
		return "<nil>"
	}
	var ks []string
	for _, k := range p.Keys() {
		ks = append(ks, k.KeyID+":"+k.KeyType+":"+k.Scheme+":"+k.KeyVal.Public)
	}
	sort.Strings(ks)
	cm := p.CustomMetadata()
	var cms []string
	for k, v := range cm {
		cms = append(cms, k+"="+v)
	}
	sort.Strings(cms)
	return fmt.Sprintf("%s{%s}{%s}", p.ID(), strings.Join(ks, ","), strings.Join(cms, ","))
}

func prinsDesc(m map[string]tuf.Principal) []string {
	var out []string
	for id, p := range m {
		out = append(out, id+"->"+prinDesc(p))
	}
	sort.Strings(out)
	return out
}

// queryTargets answers "every query" of a rule file as a string.
func queryTargets(t tuf.TargetsMetadata) string {
	var b strings.Builder
	fmt.Fprintf(&b, "version=%d\n", t.GetVersion())
	for _, r := range t.GetRules() {
		ids := r.GetPrincipalIDs()
		var idl []string
		if ids != nil {
			idl = ids.Contents()
			sort.Strings(idl)
		}
		var ms []string
		for _, p := range c13Paths {
			if r.Matches(p) {
				ms = append(ms, p)
			}
		}
		fmt.Fprintf(&b, "rule %q pats=%q prins=%v thr=%d term=%v matches=%v\n", r.ID(), r.GetProtectedNamespaces(), idl, r.GetThreshold(), r.IsLastTrustedInRuleFile(), ms)
	}
	fmt.Fprintf(&b, "principals=%v\n", prinsDesc(t.GetPrincipals()))
	return b.String()
}

func prinList(ps []tuf.Principal, err error) string {
	if err != nil {
		return "err:" + err.Error()
	}
	var out []string
	for _, p := range ps {
		out = append(out, prinDesc(p))
	}
	sort.Strings(out)
	return strings.Join(out, ";")
}

func queryRoot(r tuf.RootMetadata) string {
	var b strings.Builder
	fmt.Fprintf(&b, "version=%d location=%q controller=%v\n", r.GetVersion(), r.GetRepositoryLocation(), r.IsController())
	rt, rerr := r.GetRootThreshold()
	fmt.Fprintf(&b, "root thr=%d err=%v prins=%s\n", rt, rerr, prinList(r.GetRootPrincipals()))
	pt, perr := r.GetPrimaryRuleFileThreshold()
	fmt.Fprintf(&b, "primary thr=%d err=%v prins=%s\n", pt, perr, prinList(r.GetPrimaryRuleFilePrincipals()))
	fmt.Fprintf(&b, "principals=%v\n", prinsDesc(r.GetPrincipals()))
	for _, g := range r.GetGlobalRules() {
		switch g := g.(type) {
		case tuf.GlobalRuleThreshold:
			var ms []string
			for _, p := range c13Paths {
				if g.Matches(p) {
					ms = append(ms, p)
				}
			}
			fmt.Fprintf(&b, "global threshold %q pats=%q thr=%d matches=%v\n", g.GetName(), g.GetProtectedNamespaces(), g.GetThreshold(), ms)
		case tuf.GlobalRuleBlockForcePushes:
			var ms []string
			for _, p := range c13Paths {
				if g.Matches(p) {
					ms = append(ms, p)
				}
			}
			fmt.Fprintf(&b, "global bfp %q pats=%q matches=%v\n", g.GetName(), g.GetProtectedNamespaces(), ms)
		default:
			fmt.Fprintf(&b, "global unknown %T\n", g)
		}
	}
	for _, d := range r.GetPropagationDirectives() {
		fmt.Fprintf(&b, "prop %q %q %q %q %q %q\n", d.GetName(), d.GetUpstreamRepository(), d.GetUpstreamReference(), d.GetUpstreamPath(), d.GetDownstreamReference(), d.GetDownstreamPath())
	}
	for _, o := range r.GetControllerRepositories() {
		fmt.Fprintf(&b, "controller %q %q %s\n", o.GetName(), o.GetLocation(), prinList(o.GetInitialRootPrincipals(), nil))
	}
	for _, o := range r.GetNetworkRepositories() {
		fmt.Fprintf(&b, "network %q %q %s\n", o.GetName(), o.GetLocation(), prinList(o.GetInitialRootPrincipals(), nil))
	}
	apps, _ := r.GetGitHubAppEntries()
	var names []string
	for n := range apps {
		names = append(names, n)
	}
	sort.Strings(names)
	for _, n := range names {
		ids := apps[n].GetPrincipalIDs()
		sort.Strings(ids)
		fmt.Fprintf(&b, "app %q trusted=%v thr=%d prins=%v istrusted=%v\n", n, apps[n].IsTrusted(), apps[n].GetThreshold(), ids, r.IsGitHubAppApprovalTrusted(n))
	}
	for _, st := range []tuf.HookStage{tuf.HookStagePreCommit, tuf.HookStagePrePush} {
		hooks, err := r.GetHooks(st)
		if err != nil {
			// "no hooks defined" and an empty hook table answer every query alike
			hooks = nil
		}
		for _, h := range hooks {
			ids := h.GetPrincipalIDs().Contents()
			sort.Strings(ids)
			var hs []string
			for k, v := range h.GetHashes() {
				hs = append(hs, k+"="+v)
			}
			sort.Strings(hs)
			fmt.Fprintf(&b, "hook %v %q prins=%v hashes=%v env=%v timeout=%d\n", st, h.ID(), ids, hs, h.GetEnvironment(), h.GetTimeout())
		}
	}
	return b.String()
}

func checkTargetsWellFormed(t tuf.TargetsMetadata) string {
	rules := t.GetRules()
	if len(rules) == 0 || rules[len(rules)-1].ID() != tuf.AllowRuleName {
		return "the rule file does not end with the allow rule"
	}
	prins := t.GetPrincipals()
	for i, r := range rules {
		if i < len(rules)-1 {
			if r.ID() == tuf.AllowRuleName {
				return fmt.Sprintf("allow rule at position %d of %d", i, len(rules))
			}
			if strings.HasPrefix(r.ID(), tuf.GittufPrefix) {
				return fmt.Sprintf("user rule %q carries the reserved prefix", r.ID())
			}
			ids := []string{}
			if r.GetPrincipalIDs() != nil {
				ids = r.GetPrincipalIDs().Contents()
			}
			distinct := map[string]bool{}
			for _, id := range ids {
				distinct[id] = true
				if _, ok := prins[id]; !ok {
					return fmt.Sprintf("rule %q names undefined principal %q", r.ID(), id)
				}
			}
			if r.GetThreshold() < 1 {
				return fmt.Sprintf("rule %q has threshold %d", r.ID(), r.GetThreshold())
			}
			if r.GetThreshold() > len(distinct) {
				return fmt.Sprintf("rule %q has threshold %d but only %d distinct principals", r.ID(), r.GetThreshold(), len(distinct))
			}
		}
	}
	return ""
}

func checkRootWellFormed(r tuf.RootMetadata) string {
	prins := r.GetPrincipals()
	checkRole := func(name string, ps []tuf.Principal, perr error, thr int, terr error) string {
		if perr != nil || terr != nil {
			return "" // role not declared
		}
		distinct := map[string]bool{}
		for _, p := range ps {
			if p == nil {
				return fmt.Sprintf("%s role names an undefined principal", name)
			}
			if _, ok := prins[p.ID()]; !ok {
				return fmt.Sprintf("%s role names undefined principal %q", name, p.ID())
			}
			distinct[p.ID()] = true
		}
		if thr < 1 {
			return fmt.Sprintf("%s role has threshold %d", name, thr)
		}
		if thr > len(distinct) {
			return fmt.Sprintf("%s role has threshold %d but %d principals", name, thr, len(distinct))
		}
		return ""
	}
	rp, rperr := r.GetRootPrincipals()
	rt, rterr := r.GetRootThreshold()
	if d := checkRole("root", rp, rperr, rt, rterr); d != "" {
		return d
	}
	pp, pperr := r.GetPrimaryRuleFilePrincipals()
	pt, pterr := r.GetPrimaryRuleFileThreshold()
	if d := checkRole("primary rule file", pp, pperr, pt, pterr); d != "" {
		return d
	}
	for _, g := range r.GetGlobalRules() {
		if g, ok := g.(tuf.GlobalRuleThreshold); ok && g.GetThreshold() < 1 {
			return fmt.Sprintf("global rule %q has threshold %d", g.GetName(), g.GetThreshold())
		}
	}
	apps, _ := r.GetGitHubAppEntries()
	for n, a := range apps {
		for _, id := range a.GetPrincipalIDs() {
			if _, ok := prins[id]; !ok {
				return fmt.Sprintf("app %q names undefined principal %q", n, id)
			}
		}
		if a.GetThreshold() < 1 || a.GetThreshold() > len(a.GetPrincipalIDs()) {
			return fmt.Sprintf("app %q threshold %d with %d principals", n, a.GetThreshold(), len(a.GetPrincipalIDs()))
		}
	}
	return ""
}

func idsOf(sels []int) []string {
	out := make([]string, 0, len(sels))
	for _, s := range sels {
		out = append(out, c13PrincipalID(s))
	}
	return out
}

func applyTargetsOp(t tuf.TargetsMetadata, op c13Op, v01 bool) error {
	switch op.Op {
	case "addprin":
		return t.AddPrincipal(c13Principal(op.Prin, v01))
	case "updprin":
		return t.UpdatePrincipal(c13Principal(op.Prin, v01))
	case "rmprin":
		return t.RemovePrincipal(c13PrincipalID(op.Prin))
	case "addrule":
		return t.AddRule(op.Name, idsOf(op.PrinIDs), op.Patterns, op.Threshold)
	case "updrule":
		return t.UpdateRule(op.Name, idsOf(op.PrinIDs), op.Patterns, op.Threshold)
	case "rmrule":
		return t.RemoveRule(op.Name)
	case "reorder":
		names := op.Names
		if len(names) == 1 && names[0] == "<current>" {
			names = nil
			for _, r := range t.GetRules() {
				if r.ID() != tuf.AllowRuleName {
					names = append(names, r.ID())
				}
			}
			if len(names) > 0 {
				k := op.Stage % len(names)
				names = append(names[k:], names[:k]...)
			}
		}
		return t.ReorderRules(names)
	}
	panic("unknown targets op " + op.Op)
}

func applyRootOp(r tuf.RootMetadata, op c13Op, v01 bool) error {
	stage := []tuf.HookStage{tuf.HookStagePreCommit, tuf.HookStagePrePush, tuf.HookStage(7)}[op.Stage]
	switch op.Op {
	case "addroot":
		return r.AddRootPrincipal(c13Principal(op.Prin, v01))
	case "delroot":
		return r.DeleteRootPrincipal(c13PrincipalID(op.Prin))
	case "rootthr":
		return r.UpdateRootThreshold(op.Threshold)
	case "addprimary":
		return r.AddPrimaryRuleFilePrincipal(c13Principal(op.Prin, v01))
	case "delprimary":
		return r.DeletePrimaryRuleFilePrincipal(c13PrincipalID(op.Prin))
	case "primarythr":
		return r.UpdatePrimaryRuleFileThreshold(op.Threshold)
	case "addglobal", "updglobal":
		var g tuf.GlobalRule
		if op.Str == "bfp" {
			bg, err := tufv02.NewGlobalRuleBlockForcePushes(op.Name, op.Patterns)
			if err != nil {
				return err
			}
			g = bg
		} else {
			g = tufv02.NewGlobalRuleThreshold(op.Name, op.Patterns, op.Threshold)
		}
		if op.Op == "addglobal" {
			return r.AddGlobalRule(g)
		}
		return r.UpdateGlobalRule(g)
	case "delglobal":
		return r.DeleteGlobalRule(op.Name)
	case "addprop":
		return r.AddPropagationDirective(tufv02.NewPropagationDirective(op.Name, op.Str, "refs/heads/main", "", "refs/heads/main", "up/"))
	case "updprop":
		return r.UpdatePropagationDirective(tufv02.NewPropagationDirective(op.Name, op.Str, "refs/heads/dev", "p", "refs/heads/main", "up2"))
	case "delprop":
		return r.DeletePropagationDirective(op.Name)
	case "enablectl":
		return r.EnableController()
	case "disablectl":
		return r.DisableController()
	case "addcontroller":
		p := c13Principal(op.Prin, v01)
		if p == nil {
			return r.AddControllerRepository(op.Name, op.Str, nil)
		}
		return r.AddControllerRepository(op.Name, op.Str, []tuf.Principal{p})
	case "addnetwork":
		p := c13Principal(op.Prin, v01)
		if p == nil {
			return r.AddNetworkRepository(op.Name, op.Str, nil)
		}
		return r.AddNetworkRepository(op.Name, op.Str, []tuf.Principal{p})
	case "addapp":
		return r.AddGitHubAppPrincipal(op.Str, c13Principal(op.Prin, v01))
	case "delapp":
		r.DeleteGitHubAppPrincipal(op.Str)
		return nil
	case "enableapp":
		r.EnableGitHubAppApprovals(op.Str)
		return nil
	case "disableapp":
		r.DisableGitHubAppApprovals(op.Str)
		return nil
	case "addhook":
		_, err := r.AddHook([]tuf.HookStage{stage}, op.Name, idsOf(op.PrinIDs), map[string]string{"sha1-git": strings.Repeat("a", 40)}, tuf.HookEnvironmentLua, op.Threshold)
		return err
	case "updhook":
		return r.UpdateHook([]tuf.HookStage{stage}, op.Name, idsOf(op.PrinIDs), map[string]string{"sha256": strings.Repeat("b", 64)}, tuf.HookEnvironmentLua, op.Threshold+1)
	case "rmhook":
		return r.RemoveHook([]tuf.HookStage{stage}, op.Name)
	case "setlocation":
		r.SetRepositoryLocation(op.Str)
		return nil
	}
	panic("unknown root op " + op.Op)
}

// normJSON canonicalises a JSON document so that null, zero values, {} and []
// compare equal (a refused edit that only allocated an empty container has not
// changed the metadata; the query answers are compared as well).
func normJSON(b []byte) []byte {
	var v any
	if err := json.Unmarshal(b, &v); err != nil {
		return b
	}
	var strip func(v any) any
	strip = func(v any) any {
		switch x := v.(type) {
		case map[string]any:
			out := map[string]any{}
			for k, e := range x {
				if se := strip(e); se != nil {
					out[k] = se
				}
			}
			if len(out) == 0 {
				return nil
			}
			return out
		case bool:
			if !x {
				return nil
			}
		case string:
			if x == "" {
				return nil
			}
		case float64:
			if x == 0 {
				return nil
			}
		case []any:
			if len(x) == 0 {
				return nil
			}
			out := make([]any, 0, len(x))
			for _, e := range x {
				out = append(out, strip(e))
			}
			return out
		}
		return v
	}
	out, _ := json.Marshal(strip(v))
	return out
}

func runC13(s *kit.Session, c c13Case) *kit.Failure {
	var tm tuf.TargetsMetadata
	var rm tuf.RootMetadata
	encode := func() []byte {
		var v any = tm
		if c.Kind == "root" {
			v = rm
		}
		b, err := json.Marshal(v)
		if err != nil {
			return []byte("marshal error: " + err.Error())
		}
		return b
	}
	switch {
	case c.Kind == "targets" && c.V01:
		tm = tufv01.NewTargetsMetadata()
	case c.Kind == "targets":
		tm = tufv02.NewTargetsMetadata()
	case c.V01:
		rm = tufv01.NewRootMetadata()
	default:
		rm = tufv02.NewRootMetadata()
	}
	accepted, refused := 0, 0
	for i, op := range c.Ops {
		before := encode()
		query := func() string {
			if c.Kind == "targets" {
				return queryTargets(tm)
			}
			return queryRoot(rm)
		}
		answersBefore := query()
		var err error
		var pan any
		func() {
			defer func() { pan = recover() }()
			if c.Kind == "targets" {
				err = applyTargetsOp(tm, op, c.V01)
			} else {
				err = applyRootOp(rm, op, c.V01)
			}
		}()
		fail := func(cause, f string, a ...any) *kit.Failure {
			return &kit.Failure{Cause: cause, Msg: fmt.Sprintf("after op %d %+v (err=%v): %s", i, op, err, fmt.Sprintf(f, a...))}
		}
		if pan != nil {
			return fail("panic", "edit panicked: %v", pan)
		}
		after := encode()
		if bytes.HasPrefix(after, []byte("marshal error")) {
			return fail("unserialisable", "%s", after)
		}
		if err != nil {
			refused++
			if !bytes.Equal(normJSON(before), normJSON(after)) || answersBefore != query() {
				return fail("refused-edit-changed-metadata", "metadata changed although the edit was refused:\n before %s\n after  %s", before, after)
			}
		} else {
			accepted++
		}
		var d string
		if c.Kind == "targets" {
			d = checkTargetsWellFormed(tm)
		} else {
			d = checkRootWellFormed(rm)
		}
		if d != "" {
			return fail("ill-formed", "%s\n metadata: %s", d, after)
		}
		// round trip
		if c.Kind == "targets" {
			var t2 tuf.TargetsMetadata
			if c.V01 {
				x := &tufv01.TargetsMetadata{}
				if e := json.Unmarshal(after, x); e != nil {
					return fail("reload-error", "%v", e)
				}
				t2 = x
				mig := migrations.MigrateTargetsMetadataV01ToV02(tm.(*tufv01.TargetsMetadata))
				if q1, q2 := queryTargets(tm), queryTargets(mig); q1 != q2 {
					return fail("migration-changes-answers", "v0.1 answers\n%s\nmigrated answers\n%s", q1, q2)
				}
			} else {
				x := &tufv02.TargetsMetadata{}
				if e := json.Unmarshal(after, x); e != nil {
					return fail("reload-error", "%v", e)
				}
				t2 = x
			}
			if q1, q2 := queryTargets(tm), queryTargets(t2); q1 != q2 {
				return fail("roundtrip-changes-answers", "before\n%s\nafter reload\n%s", q1, q2)
			}
		} else {
			var r2 tuf.RootMetadata
			if c.V01 {
				x := &tufv01.RootMetadata{}
				if e := json.Unmarshal(after, x); e != nil {
					return fail("reload-error", "%v", e)
				}
				r2 = x
				mig := migrations.MigrateRootMetadataV01ToV02(rm.(*tufv01.RootMetadata))
				if q1, q2 := queryRoot(rm), queryRoot(mig); q1 != q2 {
					return fail("migration-changes-answers", "v0.1 answers\n%s\nmigrated answers\n%s", q1, q2)
				}
			} else {
				x := &tufv02.RootMetadata{}
				if e := json.Unmarshal(after, x); e != nil {
					return fail("reload-error", "%v", e)
				}
				r2 = x
			}
			if q1, q2 := queryRoot(rm), queryRoot(r2); q1 != q2 {
				return fail("roundtrip-changes-answers", "before\n%s\nafter reload\n%s", q1, q2)
			}
		}
	}
	cl := "v02"
	if c.V01 {
		cl = "v01"
	}
	s.Observe(c, accepted >= 5 && refused >= 1, c.Kind+"_"+cl)
	return nil
}

func TestC13(t *testing.T) {
	s := kit.Open(t, "C13")
	run := func(c c13Case) *kit.Failure { return runC13(s, c) }
	if rf := kit.Replay(t); rf != nil {
		if rf.Kind == "api" {
			kit.DoReplay(s, t, rf, func(c c13APICase) *kit.Failure { return runC13API(t, s, c) })
			return
		}
		kit.DoReplay(s, t, rf, run)
		return
	}
	s.SetRule("rapid: sequences of 1-25 edits on one rule file (AddRule/UpdateRule/RemoveRule/ReorderRules/Add-/Update-/RemovePrincipal) or one root (root and primary-rule-file principals and thresholds, global rules, propagation directives, controller/network repositories, GitHub apps, hooks, location) in schema v0.1 and v0.2, arguments drawn from valid and invalid values (unknown/duplicated principal ids, thresholds -1..4, reserved names, nil and foreign principal types, bad glob patterns, invalid hook stage). After every edit: well-formedness invariants, refused edit => byte-identical JSON, reload and v0.1->v0.2 migration answer every query identically. Second campaign (repository API on a real repository): 3-7 AddDelegation / UpdateDelegation / RemoveDelegation calls on the primary rule file and a delegated file with names from a small pool and its decorated variants (surrounding blanks, tab, case, reserved prefix); after every call the staged policy loads, rule names are unique across all rule files, an accepted add recorded exactly the requested name in the requested file, a refused call changed nothing; finally ApplyPolicy + reload. Non-trivial: >=5 accepted and >=1 refused edit")
	kit.Campaign(s, t, "edits", "edits", s.Budget(60_000, 2_000_000), genC13, run)
	// repository-API clause: rule names unique across all rule files (real repository)
	kit.Campaign(s, t, "api-names", "api", s.Budget(32, 480), genC13API, func(c c13APICase) *kit.Failure { return runC13API(t, s, c) })
}
