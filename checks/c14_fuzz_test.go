//go:build verif

package verifchecks

import (
	"strings"
	"testing"

	kit "github.com/gittuf/gittuf/internal/verifkit"
	"github.com/gittuf/gittuf/pkg/rsl"
)

// FuzzC14Text is the coverage-guided (native go fuzzing) form of C14's
// "for every byte string whatsoever" clause. The oracle is the same function
// the rapid campaign uses (runC14Text): the parser rejects, or the accepted
// entry is unambiguous per the independent reader of the grammar and
// parse(canonical(parse(x))) == parse(x); no panic. It runs in the thorough
// tier only, from a binary built with `go test -c -fuzz`, under a wall-clock
// budget (expiry = inconclusive for the remainder, never a violation); a
// crasher is converted by the driver into an ordinary replay file and must
// reproduce there before it is reported.
func FuzzC14Text(f *testing.F) {
	hex40 := strings.Repeat("ab", 20)
	hex64 := strings.Repeat("cd", 32)
	seeds := []string{
		rsl.ReferenceEntryHeader + "\n\nref: refs/heads/main\ntargetID: " + hex40 + "\nnumber: 1",
		rsl.ReferenceEntryHeader + "\n\nref: refs/heads/main\ntargetID: " + hex64,
		rsl.AnnotationEntryHeader + "\n\nentryID: " + hex40 + "\nentryID: " + hex40 + "\nskip: true\nnumber: 7\n-----BEGIN MESSAGE-----\nQUJD\n-----END MESSAGE-----",
		rsl.AnnotationEntryHeader + "\n\nentryID: " + hex40 + "\nskip: false",
		rsl.PropagationEntryHeader + "\n\nref: refs/heads/main\ntargetID: " + hex40 + "\nupstreamRepository: https://example.com/a:b@c\nupstreamEntryID: " + hex40 + "\nnumber: 18446744073709551615",
		// hostile constants
		rsl.ReferenceEntryHeader + "\n\nref: refs/heads/main\nref: refs/heads/evil\ntargetID: " + hex40,
		rsl.ReferenceEntryHeader + "\n\ntargetID: " + hex40 + "\nref: refs/heads/main",
		rsl.ReferenceEntryHeader + "\r\n\r\nref: refs/heads/main\r\ntargetID: " + hex40 + "\r\nnumber: 01\r\n",
		rsl.AnnotationEntryHeader + "\n\nentryID: " + hex40 + "\nskip: true\n-----BEGIN MESSAGE-----\n-----END MESSAGE-----\n-----BEGIN MESSAGE-----\nQQ==\n-----END MESSAGE-----",
		rsl.AnnotationEntryHeader + "\n\nskip: true\nentryID: " + hex40 + "\nskip: false",
		rsl.PropagationEntryHeader + "\n\nref: refs/heads/main\ntargetID: " + hex40 + "\nupstreamEntryID: " + hex40 + "\nupstreamRepository: x",
		rsl.ReferenceEntryHeader + "\n\nref: refs/heads/main \ntargetID: " + hex40 + "\nnumber: -1",
		"", "\n", rsl.ReferenceEntryHeader, rsl.ReferenceEntryHeader + "\n", rsl.ReferenceEntryHeader + "\n\n",
		"RSL Reference Entry\n\nnumber: 99999999999999999999999\nref: a\ntargetID: b",
	}
	for _, s := range seeds {
		f.Add([]byte(s))
	}
	s := kit.Scratch("C14")
	f.Fuzz(func(t *testing.T, b []byte) {
		if fl := kit.SafeRun("text", c14Text{Text: b, How: "fuzz"}, func(c c14Text) *kit.Failure { return runC14Text(s, c) }); fl != nil {
			t.Fatalf("%s", fl.Error())
		}
	})
}
