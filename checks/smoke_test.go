//go:build verif

package verifchecks

import (
	"testing"

	kit "github.com/gittuf/gittuf/internal/verifkit"
	"pgregory.net/rapid"
)

// TestSMOKE exercises the driver plumbing only (not a property).
func TestSMOKE(t *testing.T) {
	s := kit.Open(t, "SMOKE")
	run := func(x int) *kit.Failure {
		s.Observe(x, x%2 == 1, "int")
		if x == 1000 && s.Thorough() {
			return &kit.Failure{Cause: "smoke", Msg: "x is 1000"}
		}
		return nil
	}
	if rf := kit.Replay(t); rf != nil {
		kit.DoReplay(s, t, rf, run)
		return
	}
	s.SetRule("smoke: ints; non-trivial = odd")
	kit.Campaign(s, t, "ints", "int", s.Budget(1000, 10000),
		func(rt *rapid.T) int { return rapid.IntRange(0, 1000).Draw(rt, "x") }, run)
}
