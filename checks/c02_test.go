//go:build verif

package verifchecks

import (
	"context"
	"fmt"
	"sort"
	"testing"

	"github.com/gittuf/gittuf/internal/policy"
	policyopts "github.com/gittuf/gittuf/internal/policy/options/policy"
	"github.com/gittuf/gittuf/internal/tuf"
	kit "github.com/gittuf/gittuf/internal/verifkit"
	"github.com/gittuf/gittuf/pkg/rsl"
	"pgregory.net/rapid"
)

// ---------------------------------------------------------------------------
// C02 - Policy takes effect only via an unbroken, rollback-free chain of trust
// ---------------------------------------------------------------------------

type c02Case struct {
	World kit.World `json:"world"`
	Ops   []string  `json:"ops"` // mutation operators applied (labels)
}

// ---- validity model on specs -------------------------------------------------

// countSigned: distinct principals of ps owning a key among signers.
func countSigned(ps []kit.PrincipalSpec, signers []int) int {
	n := 0
	seen := map[string]bool{}
	for _, p := range ps {
		if seen[p.PID()] {
			continue
		}
		seen[p.PID()] = true
		ok := false
		for _, k := range p.Keys {
			for _, s := range signers {
				if s == k {
					ok = true
				}
			}
		}
		if ok {
			n++
		}
	}
	return n
}

func thresholdMet(ps []kit.PrincipalSpec, threshold int, signers []int) bool {
	if threshold < 1 || len(ps) < 1 {
		return false
	}
	return countSigned(ps, signers) >= threshold
}

type c02Validity struct {
	Broken      string // a condition (a)-(e) is violated
	OnlyRootSig bool   // only (f) root self-signature fails
}

// selfValid: (b) primary rule file signature, (c) delegated files signed as the
// delegating rule requires, (d) reachability, (f) root self signature.
func selfValid(s *kit.PolicySpec) c02Validity {
	v := c02Validity{}
	if s.Targets != nil {
		if !thresholdMet(s.TargetsKeys, s.TargetsThreshold, s.Targets.Signers) {
			v.Broken = "primary rule file not signed by the threshold of principals its root names"
			return v
		}
		reached := map[string]bool{}
		var walk func(f *kit.FileSpec) string
		walk = func(f *kit.FileSpec) string {
			for _, r := range f.Rules {
				sub, ok := s.Delegated[r.Name]
				if !ok {
					continue
				}
				reached[r.Name] = true
				var ps []kit.PrincipalSpec
				for _, i := range r.Principals {
					ps = append(ps, f.Principals[i])
				}
				if !thresholdMet(ps, r.Threshold, sub.Signers) {
					return fmt.Sprintf("delegated rule file %q is not signed as rule %q requires", r.Name, r.Name)
				}
				subc := sub
				if d := walk(&subc); d != "" {
					return d
				}
			}
			return ""
		}
		if d := walk(s.Targets); d != "" {
			v.Broken = d
			return v
		}
		for name := range s.Delegated {
			if !reached[name] {
				v.Broken = fmt.Sprintf("rule file %q is unreachable", name)
				return v
			}
		}
	} else if len(s.Delegated) > 0 {
		v.Broken = "delegated rule files without a primary rule file"
		return v
	}
	if !thresholdMet(s.RootPrincipals, s.RootThreshold, s.RootSigners) {
		v.OnlyRootSig = true
	}
	return v
}

func ver(v uint64) uint64 {
	if v == 0 {
		return 1
	}
	return v
}

// chainValid: (a) successor root signed by the predecessor's root threshold,
// (e) no version decreases, no rule file disappears.
func chainValid(prev, cur *kit.PolicySpec) string {
	if !thresholdMet(prev.RootPrincipals, prev.RootThreshold, cur.RootSigners) {
		return "root not signed by a threshold of the replaced state's root principals"
	}
	if ver(cur.RootVersion) < ver(prev.RootVersion) {
		return "root version decreased"
	}
	if prev.Targets != nil {
		if cur.Targets == nil {
			return "primary rule file disappeared"
		}
		if ver(cur.Targets.Version) < ver(prev.Targets.Version) {
			return "primary rule file version decreased"
		}
		for name, pf := range prev.Delegated {
			cf, ok := cur.Delegated[name]
			if !ok {
				return fmt.Sprintf("rule file %q disappeared", name)
			}
			if ver(cf.Version) < ver(pf.Version) {
				return fmt.Sprintf("rule file %q version decreased", name)
			}
		}
	}
	return ""
}

// c02Expect computes the model verdict for a verification that uses policy
// events first..(through the listed ones): chainUpTo = index of the last policy
// event whose chain validity matters; selfNeeded = policy events whose state is
// in force for a judged entry (or is the one loaded).
func c02Expect(w *kit.World, policyEvents []int, chainUpTo int, selfNeeded map[int]bool) kit.Verdict {
	unspecified := ""
	for k, ei := range policyEvents {
		if ei > chainUpTo {
			break
		}
		cur := &w.Policies[w.Events[ei].Policy]
		if k > 0 {
			prev := &w.Policies[w.Events[policyEvents[k-1]].Policy]
			if d := chainValid(prev, cur); d != "" {
				return kit.Verdict{Kind: "REJECT", Why: fmt.Sprintf("policy entry (event %d): %s", ei, d)}
			}
		}
		if selfNeeded[ei] {
			sv := selfValid(cur)
			if sv.Broken != "" {
				return kit.Verdict{Kind: "REJECT", Why: fmt.Sprintf("policy entry (event %d): %s", ei, sv.Broken)}
			}
			if sv.OnlyRootSig {
				unspecified = "root not signed by its own threshold (condition not listed by the property)"
			}
		} else {
			sv := selfValid(cur)
			if sv.Broken != "" || sv.OnlyRootSig {
				unspecified = "self-validity of a state that is never in force for a judged entry"
			}
		}
	}
	if unspecified != "" {
		return kit.Verdict{Kind: "UNSPECIFIED", Why: unspecified}
	}
	return kit.Verdict{Kind: "ACCEPT"}
}

// ---- generator ---------------------------------------------------------------------

func c02Base() kit.PolicySpec {
	a, bb := kit.PrincipalSpec{Person: "alice", Keys: []int{2}}, kit.PrincipalSpec{Person: "bob", Keys: []int{3}}
	return kit.PolicySpec{
		RootPrincipals: []kit.PrincipalSpec{keyPrin(10), keyPrin(11)}, RootThreshold: 1,
		TargetsKeys: []kit.PrincipalSpec{keyPrin(12)}, TargetsThreshold: 1,
		RootSigners: []int{10},
		Targets: &kit.FileSpec{Signers: []int{12}, Principals: []kit.PrincipalSpec{keyPrin(0), keyPrin(1), a, bb},
			Rules: []kit.RuleSpec{
				{Name: "protect-main", Patterns: []string{"git:refs/heads/main"}, Principals: []int{0, 1}, Threshold: 1},
				{Name: "team-a", Patterns: []string{"git:refs/heads/a/*"}, Principals: []int{2}, Threshold: 1},
				{Name: "team-b", Patterns: []string{"git:refs/heads/b/*"}, Principals: []int{3}, Threshold: 1},
			}},
	}
}

func cloneSpec(s kit.PolicySpec) kit.PolicySpec {
	c := s
	c.RootPrincipals = append([]kit.PrincipalSpec{}, s.RootPrincipals...)
	c.TargetsKeys = append([]kit.PrincipalSpec{}, s.TargetsKeys...)
	c.RootSigners = append([]int{}, s.RootSigners...)
	if s.Targets != nil {
		t := *s.Targets
		t.Principals = append([]kit.PrincipalSpec{}, s.Targets.Principals...)
		t.Rules = append([]kit.RuleSpec{}, s.Targets.Rules...)
		t.Signers = append([]int{}, s.Targets.Signers...)
		c.Targets = &t
	}
	if s.Delegated != nil {
		c.Delegated = map[string]kit.FileSpec{}
		for k, v := range s.Delegated {
			f := v
			f.Principals = append([]kit.PrincipalSpec{}, v.Principals...)
			f.Rules = append([]kit.RuleSpec{}, v.Rules...)
			f.Signers = append([]int{}, v.Signers...)
			c.Delegated[k] = f
		}
	}
	return c
}

var c02Operators = []string{
	"none", "root-add-principal", "root-rotate", "root-threshold-2", "root-signed-by-new-only", "root-signed-by-foreign", "root-unsigned",
	"targets-resigned-untrusted", "targets-unsigned", "targets-bump", "targets-lower", "root-bump", "root-lower",
	"add-delegated", "add-delegated-badsig", "drop-delegated", "orphan-delegated", "delegated-lower", "delegated-bump", "redefine-principal", "change-main-rule",
	"add-delegated-b", "swap-delegated", "swap-delegated",
}

// mutate applies one operator to the successor spec.
func c02Mutate(rt *rapid.T, s *kit.PolicySpec, op string) {
	switch op {
	case "root-add-principal":
		for _, p := range s.RootPrincipals {
			if p.Keys[0] == 13 {
				return
			}
		}
		s.RootPrincipals = append(s.RootPrincipals, keyPrin(13))
		s.RootSigners = []int{s.RootPrincipals[0].Keys[0]}
	case "root-rotate":
		old := s.RootPrincipals[0].Keys[0]
		s.RootPrincipals = []kit.PrincipalSpec{keyPrin(13), keyPrin(14)}
		s.RootThreshold = 1
		s.RootSigners = []int{old, 13}
	case "root-threshold-2":
		if len(s.RootPrincipals) >= 2 {
			s.RootThreshold = 2
			s.RootSigners = []int{s.RootPrincipals[0].Keys[0], s.RootPrincipals[1].Keys[0]}
		}
	case "root-signed-by-new-only":
		s.RootPrincipals = []kit.PrincipalSpec{keyPrin(8)}
		s.RootThreshold = 1
		s.RootSigners = []int{8}
	case "root-signed-by-foreign":
		s.RootSigners = []int{wgUnknownKey}
	case "root-unsigned":
		s.RootSigners = nil
	case "targets-resigned-untrusted":
		s.Targets.Signers = []int{wgUnknownKey}
		s.Targets.Principals = append(s.Targets.Principals, keyPrin(wgUnknownKey))
		s.Targets.Rules[0].Principals = []int{len(s.Targets.Principals) - 1}
	case "targets-unsigned":
		s.Targets.Signers = nil
	case "targets-bump":
		s.Targets.Version = ver(s.Targets.Version) + 1
	case "targets-lower":
		if ver(s.Targets.Version) > 1 {
			s.Targets.Version = ver(s.Targets.Version) - 1
		} else {
			s.Targets.Version = 0 // stays 1: no-op
		}
	case "root-bump":
		s.RootVersion = ver(s.RootVersion) + 1
	case "root-lower":
		if ver(s.RootVersion) > 1 {
			s.RootVersion = ver(s.RootVersion) - 1
		}
	case "add-delegated", "add-delegated-badsig":
		if s.Delegated == nil {
			s.Delegated = map[string]kit.FileSpec{}
		}
		f := kit.FileSpec{Signers: []int{2}, Principals: []kit.PrincipalSpec{keyPrin(4)},
			Rules: []kit.RuleSpec{{Name: "team-a-sub", Patterns: []string{"git:refs/heads/a/x"}, Principals: []int{0}, Threshold: 1}}}
		if op == "add-delegated-badsig" {
			f.Signers = []int{rapid.SampledFrom([]int{3, wgUnknownKey, 12}).Draw(rt, "badsig")}
		}
		s.Delegated["team-a"] = f
	case "add-delegated-b":
		if s.Delegated == nil {
			s.Delegated = map[string]kit.FileSpec{}
		}
		s.Delegated["team-b"] = kit.FileSpec{Signers: []int{3}, Principals: []kit.PrincipalSpec{keyPrin(5)},
			Rules: []kit.RuleSpec{{Name: "team-b-sub", Patterns: []string{"git:refs/heads/b/x"}, Principals: []int{0}, Threshold: 1}}}
	case "swap-delegated":
		// one rule file disappears while another, validly signed and reachable, appears:
		// the number of rule files does not go down
		_, hasA := s.Delegated["team-a"]
		_, hasB := s.Delegated["team-b"]
		switch {
		case hasA && !hasB:
			delete(s.Delegated, "team-a")
			c02Mutate(rt, s, "add-delegated-b")
		case hasB && !hasA:
			delete(s.Delegated, "team-b")
			c02Mutate(rt, s, "add-delegated")
		}
	case "drop-delegated":
		for name := range s.Delegated {
			delete(s.Delegated, name)
			break
		}
		if len(s.Delegated) == 0 {
			s.Delegated = nil
		}
	case "orphan-delegated":
		if s.Delegated == nil {
			s.Delegated = map[string]kit.FileSpec{}
		}
		s.Delegated["nobody-delegates-here"] = kit.FileSpec{Signers: []int{12}, Principals: []kit.PrincipalSpec{keyPrin(4)}}
	case "delegated-lower", "delegated-bump":
		for name, f := range s.Delegated {
			if op == "delegated-bump" {
				f.Version = ver(f.Version) + 1
			} else if ver(f.Version) > 1 {
				f.Version = ver(f.Version) - 1
			}
			s.Delegated[name] = f
			break
		}
	case "redefine-principal":
		// team-a's file (legitimately signed by alice) redefines "bob" with key 7;
		// team-b's file is then signed with key 7 instead of bob's key 3
		if s.Delegated == nil {
			s.Delegated = map[string]kit.FileSpec{}
		}
		s.Delegated["team-a"] = kit.FileSpec{Signers: []int{2}, Principals: []kit.PrincipalSpec{{Person: "bob", Keys: []int{7}}},
			Rules: []kit.RuleSpec{{Name: "team-a-sub", Patterns: []string{"git:refs/heads/a/x"}, Principals: []int{0}, Threshold: 1}}}
		s.Delegated["team-b"] = kit.FileSpec{Signers: []int{7}, Principals: []kit.PrincipalSpec{keyPrin(wgUnknownKey)},
			Rules: []kit.RuleSpec{{Name: "team-b-sub", Patterns: []string{"git:refs/heads/b/x"}, Principals: []int{0}, Threshold: 1}}}
	case "change-main-rule":
		s.Targets.Rules[0].Principals = []int{1}
	}
}

func genC02(rt *rapid.T) c02Case {
	c := c02Case{}
	n := rapid.IntRange(2, 5).Draw(rt, "nstates")
	cur := c02Base()
	w := &c.World
	pushes := 0
	addPushes := func(spec *kit.PolicySpec, slot string) {
		k := rapid.IntRange(0, 2).Draw(rt, "npush"+slot)
		for j := 0; j < k; j++ {
			signer := -1
			if spec.Targets != nil && len(spec.Targets.Rules) > 0 {
				r := spec.Targets.Rules[0]
				signer = spec.Targets.Principals[r.Principals[0]].Keys[0]
			}
			w.Events = append(w.Events, kit.Event{Kind: "push", Ref: "refs/heads/main", Tree: rapid.IntRange(0, 3).Draw(rt, "tree"), Signer: signer})
			pushes++
		}
	}
	for i := 0; i < n; i++ {
		if i > 0 {
			next := cloneSpec(cur)
			nops := rapid.IntRange(1, 2).Draw(rt, "nops")
			for j := 0; j < nops; j++ {
				op := rapid.SampledFrom(c02Operators).Draw(rt, "op")
				c02Mutate(rt, &next, op)
				c.Ops = append(c.Ops, fmt.Sprintf("%d:%s", i, op))
			}
			cur = next
		}
		w.Policies = append(w.Policies, cloneSpec(cur))
		w.Events = append(w.Events, kit.Event{Kind: "rawpolicy", Policy: i, Signer: -1})
		addPushes(&cur, fmt.Sprint(i))
	}
	if pushes == 0 {
		signer := -1
		if cur.Targets != nil && len(cur.Targets.Rules) > 0 {
			r := cur.Targets.Rules[0]
			signer = cur.Targets.Principals[r.Principals[0]].Keys[0]
		}
		w.Events = append(w.Events, kit.Event{Kind: "push", Ref: "refs/heads/main", Tree: 1, Signer: signer})
	}
	// an unprotected pair of refs to probe mergeability (policy loading only)
	// (the target ref has no entry yet, so the merge is a fast-forward from nothing)
	w.Events = append(w.Events, kit.Event{Kind: "push", Ref: "refs/heads/feature", Tree: 1, Signer: -1})
	w.Normalise()
	return c
}

func runC02(t *testing.T, s *kit.Session, c c02Case) *kit.Failure {
	w := c.World
	var policyEvents, mainPushes []int
	for i, e := range w.Events {
		switch {
		case e.Kind == "rawpolicy":
			policyEvents = append(policyEvents, i)
		case e.Kind == "push" && e.Ref == "refs/heads/main":
			mainPushes = append(mainPushes, i)
		}
	}
	inForce := func(pushIdx int) int {
		p := -1
		for _, pe := range policyEvents {
			if pe < pushIdx {
				p = pe
			}
		}
		return p
	}
	// dependency sets per mode
	type mode struct {
		name    string
		chainTo int
		self    map[int]bool
	}
	var modes []mode
	if len(mainPushes) > 0 {
		first, last := mainPushes[0], mainPushes[len(mainPushes)-1]
		full := mode{name: "full", chainTo: inForce(last), self: map[int]bool{}}
		for _, p := range mainPushes {
			full.self[inForce(p)] = true
		}
		modes = append(modes, full)
		modes = append(modes, mode{name: "latest", chainTo: inForce(last), self: map[int]bool{inForce(last): true}})
		fe := mode{name: "from-entry", chainTo: inForce(last), self: map[int]bool{}}
		for _, p := range mainPushes {
			fe.self[inForce(p)] = true
		}
		_ = first
		modes = append(modes, fe)
	}
	lastPol := policyEvents[len(policyEvents)-1]
	modes = append(modes, mode{name: "mergeable", chainTo: lastPol, self: map[int]bool{lastPol: true}})
	modes = append(modes, mode{name: "load-current", chainTo: lastPol, self: map[int]bool{lastPol: true}})
	// the caller pins the initial root of trust: with the key that signed the first
	// root the verdict is that of load-current; with a key that did not, refusal
	modes = append(modes, mode{name: "load-pinned-good", chainTo: lastPol, self: map[int]bool{lastPol: true}})
	modes = append(modes, mode{name: "load-pinned-bad", chainTo: lastPol, self: map[int]bool{lastPol: true}})

	check := func(b *kit.Built) *kit.Failure {
		results := map[string]error{}
		verdicts := map[string]kit.Verdict{}
		for _, m := range modes {
			rsl.VerifResetCache()
			var err error
			ctx := context.Background()
			switch m.name {
			case "full":
				_, err = policy.NewPolicyVerifier(b.Store).VerifyRefFull(ctx, "refs/heads/main")
			case "latest":
				_, err = policy.NewPolicyVerifier(b.Store).VerifyRef(ctx, "refs/heads/main")
			case "from-entry":
				_, err = policy.NewPolicyVerifier(b.Store).VerifyRefFromEntry(ctx, "refs/heads/main", mustID(b.Entry[mainPushes[0]]))
			case "mergeable":
				_, err = policy.NewPolicyVerifier(b.Store).VerifyMergeable(ctx, "refs/heads/scratch", "refs/heads/feature")
			case "load-current":
				_, err = policy.LoadCurrentState(ctx, b.Store, policy.PolicyRef)
			case "load-pinned-good", "load-pinned-bad":
				first := &w.Policies[w.Events[policyEvents[0]].Policy]
				var pin []tuf.Principal
				for _, k := range first.RootSigners {
					pin = append(pin, kit.Key(k).V02())
				}
				if m.name == "load-pinned-bad" {
					pin = append(pin, kit.Key(wgUnknownKey).V02()) // never signed the first root
				}
				_, err = policy.LoadCurrentState(ctx, b.Store, policy.PolicyRef, policyopts.WithInitialRootPrincipals(pin))
			}
			v := c02Expect(&w, policyEvents, m.chainTo, m.self)
			if m.name == "load-pinned-bad" {
				v = kit.Verdict{Kind: "REJECT", Why: "the pinned initial root principals did not all sign the first root of trust"}
			}
			results[m.name], verdicts[m.name] = err, v
			switch v.Kind {
			case "REJECT":
				if err == nil {
					return &kit.Failure{Cause: "forged-policy-accepted", Msg: fmt.Sprintf("mode %s succeeded although %s (operators %v)", m.name, v.Why, c.Ops)}
				}
			case "ACCEPT":
				if err != nil {
					return &kit.Failure{Cause: "valid-policy-rejected", Msg: fmt.Sprintf("mode %s failed on a chain that satisfies every condition: %v (operators %v)", m.name, err, c.Ops)}
				}
			}
		}
		return nil
	}
	rsl.VerifResetCache()
	st := kit.NewMemStore()
	b, err := kit.BuildWorld(st, &w)
	if err != nil {
		return &kit.Failure{Cause: "harness", Msg: "world does not build: " + err.Error()}
	}
	if f := confirmOnGit(t, &w, check(b), check); f != nil {
		return f
	}
	// classes
	classes := []string{}
	nt := false
	for _, m := range modes {
		v := c02Expect(&w, policyEvents, m.chainTo, m.self)
		classes = append(classes, m.name+"_"+v.Kind)
		if v.Kind == "REJECT" {
			nt = true
		}
	}
	for _, op := range c.Ops {
		if len(op) > 2 && (op[2:] == "root-rotate" || op[2:] == "root-add-principal") {
			nt = true
		}
	}
	sort.Strings(classes)
	s.Observe(c, nt, uniq(classes)...)
	return nil
}

func TestC02(t *testing.T) {
	s := kit.Open(t, "C02")
	run := func(c c02Case) *kit.Failure { return runC02(t, s, c) }
	if rf := kit.Replay(t); rf != nil {
		kit.DoReplay(s, t, rf, run)
		return
	}
	s.SetRule("rapid: chains of 2-5 policy states, each successor produced from its predecessor by 1-2 of 23 mutation operators (add/rotate root principals, raise the root threshold, sign the root with old / new-only / foreign / no keys, re-sign or unsign the primary rule file, bump/lower root, primary and delegated versions, add (well or badly signed) / drop / orphan delegated files, replace one delegated file by another in one step, redefine a principal id inside a delegated file, change the rule for main), written with raw commits plus a policy entry (what anyone with push access can record); 0-2 authorised pushes to main after every state. Oracle: the validity conditions (a)-(e) of the property evaluated on the abstract states; each of VerifyRefFull, VerifyRef, VerifyRefFromEntry, VerifyMergeable (on an unprotected ref), LoadCurrentState and LoadCurrentState with the initial root pinned by the caller (to the key that signed the first root: same verdict; to a set containing a key that did not: refused) must reject when a state it depends on breaks a condition and accept when all hold. Non-trivial: some mode's dependency is broken, or the root is rotated/extended")
	kit.Campaign(s, t, "chains", "chain", s.Budget(10_000, 300_000), genC02, run)
}
