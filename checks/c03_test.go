//go:build verif

package verifchecks

import (
	"context"
	"fmt"
	"os"
	"strings"
	"testing"

	"github.com/gittuf/gittuf/internal/attestations"
	"github.com/gittuf/gittuf/internal/policy"
	kit "github.com/gittuf/gittuf/internal/verifkit"
	"github.com/gittuf/gittuf/pkg/githash"
	"github.com/gittuf/gittuf/pkg/gitstore"
	"github.com/gittuf/gittuf/pkg/rsl"
	"pgregory.net/rapid"
)

// ---------------------------------------------------------------------------
// C03 - Recording keeps the RSL an append-only, consecutively numbered single chain
// ---------------------------------------------------------------------------

type c03ID struct {
	Kind string `json:"kind"` // entry | commit | blob | tree | unknown
	Idx  int    `json:"idx"`
}

type c03Op struct {
	Op     string  `json:"op"`
	Ref    string  `json:"ref,omitempty"`
	Target int     `json:"target"` // pool index, or -1 for an id that does not exist in the store
	IDs    []c03ID `json:"ids,omitempty"`
	Skip   bool    `json:"skip,omitempty"`
	Msg    string  `json:"msg,omitempty"`
	Key    int     `json:"key"` // -1: Commit(sign=false), >=0: CommitUsingSpecificKey
	Spec   int     `json:"spec,omitempty"`
	// Fault (in-memory backend only): the k-th storage call of this operation
	// returns an error (0: none; beyond the calls the operation makes: no effect)
	Fault int `json:"fault,omitempty"`
}

type c03Case struct {
	Backend string  `json:"backend"` // mem | git
	Legacy  int     `json:"legacy"`  // number of leading operations recorded without number
	Ops     []c03Op `json:"ops"`
}

func c03Spec(i int) *kit.PolicySpec {
	k0 := kit.PrincipalSpec{Keys: []int{0}}
	k1 := kit.PrincipalSpec{Keys: []int{1}}
	spec := &kit.PolicySpec{
		RootPrincipals: []kit.PrincipalSpec{k0}, RootThreshold: 1,
		TargetsKeys: []kit.PrincipalSpec{k0}, TargetsThreshold: 1,
		RootSigners: []int{0},
		Targets: &kit.FileSpec{Principals: []kit.PrincipalSpec{k1}, Signers: []int{0},
			Rules: []kit.RuleSpec{{Name: "protect-main", Patterns: []string{"git:refs/heads/main"}, Principals: []int{0}, Threshold: 1}}},
	}
	if i%2 == 1 {
		spec.Targets.Rules = append(spec.Targets.Rules, kit.RuleSpec{Name: "protect-feature", Patterns: []string{"git:refs/heads/feature"}, Principals: []int{0}, Threshold: 1})
	}
	return spec
}

func genC03(rt *rapid.T) c03Case {
	c := c03Case{Backend: "mem"}
	n := rapid.IntRange(1, 14).Draw(rt, "nops")
	if rapid.IntRange(0, 2).Draw(rt, "haslegacy") == 0 {
		c.Legacy = rapid.IntRange(0, n).Draw(rt, "legacy")
	}
	for i := 0; i < n; i++ {
		op := c03Op{Key: -1}
		if i < c.Legacy {
			op.Op = rapid.SampledFrom([]string{"ref", "ref", "ann"}).Draw(rt, "lop")
		} else {
			op.Op = rapid.SampledFrom([]string{"ref", "ref", "ref", "ann", "ann", "ann", "prop", "stage", "apply", "attest", "autoskip"}).Draw(rt, "op")
		}
		switch op.Op {
		case "ref", "prop":
			if rapid.IntRange(0, 3).Draw(rt, "oddref") == 0 {
				op.Ref = genRefName(rt)
			} else {
				op.Ref = rapid.SampledFrom(c04Refs).Draw(rt, "ref")
			}
			op.Target = rapid.IntRange(-1, 4).Draw(rt, "target")
			if i >= c.Legacy {
				op.Key = rapid.IntRange(-1, 1).Draw(rt, "key")
			}
		case "ann":
			k := rapid.IntRange(1, 4).Draw(rt, "nids")
			for j := 0; j < k; j++ {
				kind := rapid.SampledFrom([]string{"entry", "entry", "entry", "entry", "commit", "blob", "tree", "unknown"}).Draw(rt, "idkind")
				op.IDs = append(op.IDs, c03ID{Kind: kind, Idx: rapid.IntRange(0, 20).Draw(rt, "ididx")})
			}
			op.Skip = rapid.Bool().Draw(rt, "skip")
			op.Msg = string(genMessage(rt))
			if i >= c.Legacy {
				op.Key = rapid.IntRange(-1, 1).Draw(rt, "key")
			}
		case "stage":
			op.Spec = rapid.IntRange(0, 1).Draw(rt, "spec")
		case "autoskip":
			op.Ref = rapid.SampledFrom(c04Refs[:3]).Draw(rt, "ref")
		}
		if i >= c.Legacy && rapid.IntRange(0, 7).Draw(rt, "faulty") == 0 {
			op.Fault = rapid.IntRange(1, 40).Draw(rt, "faultat")
		}
		c.Ops = append(c.Ops, op)
	}
	return c
}

func runC03(t *testing.T, s *kit.Session, c c03Case) *kit.Failure {
	rsl.VerifResetCache()
	var st kit.RawStore
	if c.Backend == "git" {
		dir, err := os.MkdirTemp("", "c03-")
		if err != nil {
			panic(err)
		}
		defer os.RemoveAll(dir)
		st = kit.NewGitStore(t, dir, true)
	} else {
		st = kit.NewMemStore()
	}
	pool, err := kit.BuildCommitPool(st)
	if err != nil {
		panic(err)
	}
	blob, _ := st.WriteBlob([]byte("just a blob"))
	tree, _ := st.WriteTree([]gitstore.TreeEntry{{Path: "x", ID: blob}})
	unknown, _ := githash.NewHash(strings.Repeat("12", 20))

	chain, err := kit.WalkChain(st, kit.RSLRef)
	if err != nil || len(chain) != 0 {
		panic(fmt.Sprintf("fresh store has a log: %v %v", chain, err))
	}
	successes, refusals, faulted := 0, 0, 0
	tainted := false
	transition := false
	for i, op := range c.Ops {
		before := kit.ChainIDs(chain)
		legacy := i < c.Legacy
		wantDelta, wantErr := 1, false
		deltaAlso := -1
		either := false // outcome not pinned by the property (managed refs deliberately out of sync with the log)
		var opErr error
		var ost gitstore.Storer = st
		var fs *kit.FaultStore
		if op.Fault > 0 && c.Backend != "git" {
			fs = kit.NewFaultStore(st)
			fs.FailAt = op.Fault
			ost = fs
		}
		switch op.Op {
		case "ref", "prop":
			target := unknown
			if op.Target >= 0 {
				target = pool.IDs[op.Target]
			}
			if strings.HasPrefix(op.Ref, "refs/gittuf/") {
				tainted = true // an entry for a gittuf ref whose ref was not moved
			}
			if op.Op == "ref" {
				e := rsl.NewReferenceEntry(op.Ref, target)
				switch {
				case legacy:
					opErr = e.CommitWithoutNumber(ost)
				case op.Key >= 0:
					opErr = e.CommitUsingSpecificKey(ost, kit.Key(op.Key).PEM)
				default:
					opErr = e.Commit(ost, false)
				}
			} else {
				e := rsl.NewPropagationEntry(op.Ref, target, "https://up/A", pool.IDs[4])
				if op.Key >= 0 {
					opErr = e.CommitUsingSpecificKey(ost, kit.Key(op.Key).PEM)
				} else {
					opErr = e.Commit(ost, false)
				}
			}
		case "ann":
			var ids []githash.Hash
			allEntries := true
			for _, id := range op.IDs {
				switch id.Kind {
				case "entry":
					if len(chain) == 0 {
						ids = append(ids, unknown)
						allEntries = false
					} else {
						ids = append(ids, kit.HashOf(chain[id.Idx%len(chain)].ID))
					}
				case "commit":
					ids = append(ids, pool.IDs[id.Idx%len(pool.IDs)])
					allEntries = false
				case "blob":
					ids = append(ids, blob)
					allEntries = false
				case "tree":
					ids = append(ids, tree)
					allEntries = false
				default:
					ids = append(ids, unknown)
					allEntries = false
				}
			}
			if !allEntries {
				wantDelta, wantErr = 0, true
			}
			e := rsl.NewAnnotationEntry(ids, op.Skip, op.Msg)
			switch {
			case legacy:
				opErr = e.CommitWithoutNumber(ost)
			case op.Key >= 0:
				opErr = e.CommitUsingSpecificKey(ost, kit.Key(op.Key).PEM)
			default:
				opErr = e.Commit(ost, false)
			}
		case "stage":
			md, err := kit.BuildStateMetadata(c03Spec(op.Spec))
			if err != nil {
				panic(err)
			}
			opErr = (&policy.State{Metadata: md}).Commit(ost, "stage", true, false)
		case "apply":
			_, serr := st.GetReference(policy.PolicyStagingRef)
			opErr = policy.Apply(context.Background(), ost, false)
			if serr != nil {
				wantDelta, wantErr = 0, true
			}
			either = tainted
		case "attest":
			cur, err := attestations.LoadCurrentAttestations(st)
			if err != nil {
				if !tainted {
					return &kit.Failure{Cause: "attestations-load", Msg: err.Error()}
				}
				opErr, either = err, true
			} else {
				opErr = cur.Commit(ost, "attest", true, false)
			}
		case "autoskip":
			opErr = rsl.SkipAllInvalidReferenceEntriesForRef(ost, op.Ref, false)
			wantDelta, deltaAlso = 0, 1
			if opErr != nil {
				wantErr = true
			}
		}
		if fs != nil && fs.Injected {
			// a storage failure somewhere inside the operation: it may fail (and must
			// then have appended nothing) or tolerate the failure; what it leaves in
			// the managed references is C16's business, so later expectations loosen
			rsl.VerifResetCache()
			either, tainted = true, true
			faulted++
		}
		after, err := kit.WalkChain(st, kit.RSLRef)
		if err != nil {
			return &kit.Failure{Cause: "chain-unreadable", Msg: fmt.Sprintf("after op %d %+v: %v", i, op, err)}
		}
		fail := func(cause, f string, a ...any) *kit.Failure {
			return &kit.Failure{Cause: cause, Msg: fmt.Sprintf("after op %d %+v (err=%v): %s", i, op, opErr, fmt.Sprintf(f, a...))}
		}
		if d := kit.CheckChain(after); d != "" {
			return fail("chain-invalid", "%s", d)
		}
		if d := kit.CheckAnnotationTargets(after); d != "" {
			return fail("annotation-target", "%s", d)
		}
		afterIDs := kit.ChainIDs(after)
		if !kit.IsPrefix(before, afterIDs) {
			return fail("not-append-only", "the previous log is not a prefix of the new log")
		}
		delta := len(afterIDs) - len(before)
		if opErr != nil {
			if delta != 0 {
				return fail("failed-op-appended", "a failed operation appended %d entries", delta)
			}
			if !wantErr && !either {
				return fail("spurious-refusal", "operation was expected to succeed")
			}
			refusals++
		} else {
			if wantErr && !either {
				return fail("accepted-invalid", "operation was expected to be refused")
			}
			if delta != wantDelta && delta != deltaAlso {
				return fail("wrong-append-count", "appended %d entries, specified %d", delta, wantDelta)
			}
			if delta > 0 {
				successes++
				if legacy != (after[len(after)-1].Number == 0) {
					return fail("numbering", "legacy=%v but new entry is numbered %d", legacy, after[len(after)-1].Number)
				}
				if !legacy && len(before) > 0 && chain[len(chain)-1].Number == 0 {
					transition = true
				}
			}
		}
		chain = after
		// the real readers must agree the log is walkable
		if len(chain) > 0 {
			rsl.VerifResetCache()
			if _, _, err := rsl.GetFirstEntry(st); err != nil {
				hasUpdater := false
				for _, e := range chain {
					if e.Kind != "annotation" {
						hasUpdater = true
					}
				}
				if hasUpdater {
					return fail("readers-disagree", "GetFirstEntry fails on a log the walker finds valid: %v", err)
				}
			}
		}
	}
	nt := successes >= 3 && (refusals >= 1 || transition)
	classes := []string{"backend_" + c.Backend}
	if transition {
		classes = append(classes, "numbering_transition")
	}
	if refusals > 0 {
		classes = append(classes, "has_refusal")
	}
	if faulted > 0 {
		classes = append(classes, "operation_with_storage_fault")
	}
	s.Observe(c, nt, classes...)
	return nil
}

func TestC03(t *testing.T) {
	s := kit.Open(t, "C03")
	run := func(c c03Case) *kit.Failure { return runC03(t, s, c) }
	if rf := kit.Replay(t); rf != nil {
		kit.DoReplay(s, t, rf, run)
		return
	}
	s.SetRule("rapid: sequences of 1-14 recording operations {reference entry (arbitrary valid ref names incl. refs/gittuf/*, existing or unknown targets, unsigned or signed with a specific key), annotation (1-4 ids drawn from real entries / non-RSL commits / blobs / trees / unknown ids, skip flag, arbitrary message bytes), propagation entry, State.Commit to policy-staging, policy.Apply, Attestations.Commit, SkipAllInvalidReferenceEntriesForRef} starting from an empty log, optionally with a legacy unnumbered prefix (CommitWithoutNumber) that transitions to numbering; one operation in eight runs with its k-th storage call failing (in-memory backend); after every operation an independent walker (own object reader + own entry parser) checks single parent, consecutive numbers, append-only prefix, exact append count, nothing appended on error, annotations refused unless all ids are entries. Memstore backend plus a git-backed share. Non-trivial: >=3 successful appends and (a refusal or a numbering transition)")
	kit.Campaign(s, t, "mem", "seq", s.Budget(30_000, 600_000), genC03, run)
	kit.Campaign(s, t, "git", "seq", s.Budget(48, 640), func(rt *rapid.T) c03Case {
		c := genC03(rt)
		c.Backend = "git"
		if len(c.Ops) > 8 {
			c.Ops = c.Ops[:8]
		}
		return c
	}, run)
}
