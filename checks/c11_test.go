//go:build verif

package verifchecks

import (
	"fmt"
	"testing"

	kit "github.com/gittuf/gittuf/internal/verifkit"
	"github.com/gittuf/gittuf/pkg/rsl"
	"pgregory.net/rapid"
)

// ---------------------------------------------------------------------------
// C11 - Global rules add constraints; they never replace or weaken delegation rules
// ---------------------------------------------------------------------------

type c11Case struct {
	World kit.World `json:"world"`
	Gen   []string  `json:"gen,omitempty"`
}

func stripGlobals(w kit.World) kit.World {
	out := kit.World{Events: w.Events}
	for _, p := range w.Policies {
		q := p
		q.Globals = nil
		out.Policies = append(out.Policies, q)
	}
	return out
}

func runC11(t *testing.T, s *kit.Session, c c11Case) *kit.Failure {
	w := c.World
	wBase := stripGlobals(w)
	check := func(b *kit.Built) *kit.Failure {
		// (ii)+(iii): agreement with the model under P ∪ G
		if f := checkWorldC01(b, &w, true); f != nil {
			return f
		}
		return nil
	}
	rsl.VerifResetCache()
	st := kit.NewMemStore()
	b, err := kit.BuildWorld(st, &w)
	if err != nil {
		return &kit.Failure{Cause: "harness", Msg: "world does not build: " + err.Error()}
	}
	if f := confirmOnGit(t, &w, check(b), check); f != nil {
		return f
	}
	// (i) monotonicity: the same history under P (no global rules)
	rsl.VerifResetCache()
	stBase := kit.NewMemStore()
	bBase, err := kit.BuildWorld(stBase, &wBase)
	if err != nil {
		return &kit.Failure{Cause: "harness", Msg: "base world does not build: " + err.Error()}
	}
	weakened := 0
	for _, ref := range wgRefs {
		has := false
		for _, e := range w.Events {
			if (e.Kind == "push" || e.Kind == "prop") && e.Ref == ref {
				has = true
			}
		}
		if !has {
			continue
		}
		withG := verifyFull(b.Store, ref)
		without := verifyFull(bBase.Store, ref)
		if withG.Err == nil && without.Err != nil {
			// Listed finding: the documented recovery rule itself is not monotone.
			// A change that only the global rule forbids (a force push) and that is
			// revoked starts a recovery, and the entry that ends a recovery - the
			// first unrevoked one restoring the last good tree - is deliberately not
			// signature-checked (the existing suite pins that). An unauthorised push
			// that the delegation rules alone reject is then accepted as that fix.
			// It is recognised by the reference model (which encodes exactly the
			// documented semantics) showing the same pair of verdicts; an acceptance
			// the model does not share is a violation (and also fails clause ii).
			mG := &kit.Model{W: &w, Opts: kit.ModelOptions{}}
			mB := &kit.Model{W: &wBase, Opts: kit.ModelOptions{}}
			if mG.VerifyFull(ref).Kind == "ACCEPT" && mB.VerifyFull(ref).Kind == "REJECT" && s.IsKnown("C11-global-rule-violation-recovered-by-unverified-fix") {
				s.KnownHit("C11-global-rule-violation-recovered-by-unverified-fix", c)
				continue
			}
			return &kit.Failure{Cause: "global-rule-weakens", Msg: fmt.Sprintf("%s verifies with the global rules declared but is rejected by the delegation rules alone (%v)", ref, without.Err)}
		}
		if withG.Err != nil && without.Err == nil {
			weakened++
		}
	}
	genLabels := map[string]bool{}
	for _, g := range c.Gen {
		genLabels[g] = true
	}
	classes, _ := worldClasses(&w, genLabels)
	if weakened > 0 {
		classes = append(classes, "global_rule_blocks_otherwise_valid_history")
	}
	// non-trivial: a global rule and a delegation rule both present and an entry the delegation rules alone reject, or a force push
	hasGlobal, hasForce := false, false
	for _, p := range w.Policies {
		if len(p.Globals) > 0 {
			hasGlobal = true
		}
	}
	for _, e := range w.Events {
		if e.Force {
			hasForce = true
		}
	}
	mBase := &kit.Model{W: &wBase, Opts: kit.ModelOptions{}}
	baseRejects := false
	for _, ref := range wgRefs {
		if mBase.VerifyFull(ref).Kind == "REJECT" {
			baseRejects = true
		}
	}
	s.Observe(c, hasGlobal && (baseRejects || hasForce), classes...)
	return nil
}

// ---- shared keys: one signature never counts as two principals ------------------

type c11SharedCase struct {
	Prins     []kit.PrincipalSpec `json:"prins"`      // principals of the primary rule file; keys may be listed under several of them
	RulePrins []int               `json:"rule_prins"` // the rule protecting main
	RuleThr   int                 `json:"rule_thr"`
	K         int                 `json:"k"`      // global threshold on main
	Signer    int                 `json:"signer"` // key signing the entry (-1 none)
	Approvers []int               `json:"approvers,omitempty"`
}

func genC11Shared(rt *rapid.T) c11SharedCase {
	c := c11SharedCase{}
	n := rapid.IntRange(2, 4).Draw(rt, "nprins")
	ids := map[string]bool{}
	for i := 0; i < n; i++ {
		var p kit.PrincipalSpec
		k := rapid.IntRange(0, 2).Draw(rt, "key") // small pool => sharing is the norm
		switch rapid.IntRange(0, 2).Draw(rt, "shape") {
		case 0:
			p = keyPrin(k)
		case 1:
			p = kit.PrincipalSpec{Person: fmt.Sprintf("person%d", i), Keys: []int{k}}
		default:
			k2 := rapid.IntRange(0, 3).Draw(rt, "key2")
			p = kit.PrincipalSpec{Person: fmt.Sprintf("person%d", i), Keys: uniqInts([]int{k, k2})}
		}
		if ids[p.PID()] {
			continue
		}
		ids[p.PID()] = true
		c.Prins = append(c.Prins, p)
	}
	m := rapid.IntRange(1, len(c.Prins)).Draw(rt, "nrule")
	c.RulePrins = append([]int{}, rapid.Permutation(indices(len(c.Prins))).Draw(rt, "ruleperm")[:m]...)
	c.RuleThr = rapid.IntRange(1, min(2, m)).Draw(rt, "rulethr")
	c.K = rapid.IntRange(1, 3).Draw(rt, "k")
	c.Signer = rapid.SampledFrom([]int{-1, 0, 1, 2, 3}).Draw(rt, "signer")
	na := rapid.IntRange(0, 3).Draw(rt, "napprovers")
	for i := 0; i < na; i++ {
		c.Approvers = append(c.Approvers, rapid.IntRange(0, 3).Draw(rt, "approver"))
	}
	c.Approvers = uniqInts(c.Approvers)
	return c
}

func runC11Shared(t *testing.T, s *kit.Session, c c11SharedCase) *kit.Failure {
	root := keyPrin(wgRootKey)
	spec := kit.PolicySpec{RootPrincipals: []kit.PrincipalSpec{root}, RootThreshold: 1, TargetsKeys: []kit.PrincipalSpec{root}, TargetsThreshold: 1, RootSigners: []int{wgRootKey},
		Targets: &kit.FileSpec{Signers: []int{wgRootKey}, Principals: c.Prins,
			Rules: []kit.RuleSpec{{Name: "protect-main", Patterns: []string{"git:refs/heads/main"}, Principals: c.RulePrins, Threshold: c.RuleThr}}},
		Globals: []kit.GlobalSpec{{Name: "g", Kind: "threshold", Patterns: []string{"git:refs/heads/main"}, Threshold: c.K}}}
	w := kit.World{Policies: []kit.PolicySpec{spec}, Events: []kit.Event{{Kind: "policy", Policy: 0, Signer: -1}}}
	if len(c.Approvers) > 0 {
		ch := kit.Change{Ref: "refs/heads/main", From: -2, To: 1}
		w.Events = append(w.Events, kit.Event{Kind: "approve", Signer: -1, Items: []kit.AttItem{{Kind: "auth", Stmt: ch, Path: ch, Signers: c.Approvers}}})
	}
	w.Events = append(w.Events, kit.Event{Kind: "push", Ref: "refs/heads/main", Tree: 1, Signer: c.Signer})
	w.Normalise()
	// upper bounds: distinct principals matched to distinct validly signing keys
	valid := map[int]bool{}
	if c.Signer >= 0 {
		valid[c.Signer] = true
	}
	for _, k := range c.Approvers {
		valid[k] = true
	}
	var all, rule []c05Prin
	for _, p := range c.Prins {
		all = append(all, c05Prin{Kind: "person", ID: p.PID(), Keys: p.Keys})
	}
	for _, i := range c.RulePrins {
		rule = append(rule, all[i])
	}
	mAll, mRule := maxMatching(all, valid), maxMatching(rule, valid)
	check := func(b *kit.Built) *kit.Failure {
		accepted, rejected := 0, 0
		var lastErr error
		for i := 0; i < 8; i++ { // the verdict may not depend on map iteration order
			got := verifyFull(b.Store, "refs/heads/main")
			if got.Err == nil {
				accepted++
			} else {
				rejected++
				lastErr = got.Err
			}
		}
		if accepted > 0 && mRule < c.RuleThr {
			return &kit.Failure{Cause: "false-accept", Msg: fmt.Sprintf("accepted (%d of 8 runs) although at most %d principals of the rule can be matched to distinct validly signing keys (threshold %d)", accepted, mRule, c.RuleThr)}
		}
		if accepted > 0 && mAll < c.K {
			return &kit.Failure{Cause: "global-threshold-overcount", Msg: fmt.Sprintf("accepted (%d of 8 runs) although at most %d principals of the policy can be matched to distinct validly signing keys and the global rule demands %d: one signature counted as several principals", accepted, mAll, c.K)}
		}
		// (with keys listed under several principals gittuf's greedy key assignment
		// may under-count, and which principal gets a shared key depends on map
		// order: the listed properties demand exactness - and C08 a verdict that is
		// a function of the log - only for principals that share no keys, so a
		// rejection here is not judged; every acceptance among the runs is)
		_, _ = rejected, lastErr
		return nil
	}
	rsl.VerifResetCache()
	st := kit.NewMemStore()
	b, err := kit.BuildWorld(st, &w)
	if err != nil {
		return &kit.Failure{Cause: "harness", Msg: "world does not build: " + err.Error()}
	}
	if f := confirmOnGit(t, &w, check(b), check); f != nil {
		return f
	}
	shared := false
	cnt := map[int]int{}
	for _, p := range c.Prins {
		for _, k := range p.Keys {
			cnt[k]++
			if cnt[k] > 1 && valid[k] {
				shared = true
			}
		}
	}
	classes := []string{"shared_key_campaign"}
	if shared {
		classes = append(classes, "signing_key_listed_under_two_principals")
	}
	if mAll >= c.K && mRule >= c.RuleThr {
		classes = append(classes, "shared_upper_bound_allows_accept")
	}
	s.Observe(c, shared, classes...)
	return nil
}

func TestC11(t *testing.T) {
	s := kit.Open(t, "C11")
	run := func(c c11Case) *kit.Failure { return runC11(t, s, c) }
	runShared := func(c c11SharedCase) *kit.Failure { return runC11Shared(t, s, c) }
	if rf := kit.Replay(t); rf != nil {
		if rf.Kind == "shared" {
			kit.DoReplay(s, t, rf, runShared)
			return
		}
		if rf.Kind == "verdict" {
			kit.DoReplay(s, t, rf, func(c c10VerdictCase) *kit.Failure { return runC10Verdict(t, s, c) })
			return
		}
		kit.DoReplay(s, t, rf, run)
		return
	}
	s.SetRule("rapid: the C01 worlds whose policy states additionally declare 0-3 global rules (threshold k in 1..3 or block-force-pushes; patterns matching the verified ref, another ref, a wildcard or nothing), with pushes, force pushes (non-descendant commits), approvals, annotations and policy changes. Oracles: (i) metamorphic monotonicity - the same history is built under P+G and under P alone, accept(P+G) => accept(P); (ii)/(iii) the reference model with global rules (policy-wide credit below k or a non-descendant target => reject, rule credit >= k and descendant => accept, in between unspecified) for VerifyRefFull / VerifyRef / VerifyRefFromEntry. Second campaign (shared keys): 2-4 principals over a pool of 3-4 keys (bare keys, persons with 1-2 keys; a key is usually listed under several principals), a rule for main, a global threshold k on main, one push signed by any key plus an authorization signed by any subset; accept => the rule's and the policy's principals can be matched to >= threshold / >= k distinct validly signing keys (checked on each of 8 repeated verifications, because which principal a shared key is credited to depends on map order). Third campaign (real repository): pushes of 1-3 commits over protected and unprotected paths under file rules plus a global rule that does not concern the branch; expected verdict = the file rules alone. Non-trivial: a global rule present and (the delegation rules alone reject the history, or a force push occurs)")
	opt := wgOptions{Delegation: true, Globals: true, PropProtected: true}
	kit.Campaign(s, t, "globals", "world", s.Budget(8_000, 250_000), func(rt *rapid.T) c11Case {
		cl := map[string]bool{}
		w := genWorld(rt, opt, cl)
		return c11Case{World: w, Gen: sortedKeys(cl)}
	}, run)
	// keys listed under several principals: a global threshold counts distinct
	// principals with distinct keys (soundness bound by maximum matching), and the
	// bound is checked on repeated verifications
	kit.Campaign(s, t, "shared-keys", "shared", s.Budget(3_000, 80_000), genC11Shared, runShared)
	// file rules under a global rule that does not concern the branch (real
	// repository; the scenario and oracle of C10's verdict campaign): what the
	// file rules alone reject must stay rejected whatever global rule is declared
	kit.Campaign(s, t, "file-rules-under-global", "verdict", s.Budget(32, 320), func(rt *rapid.T) c10VerdictCase {
		c := genC10Verdict(rt)
		c.Global = rapid.SampledFrom([]string{"threshold-other-ref", "force-other-ref"}).Draw(rt, "forcedglobal")
		return c
	}, func(c c10VerdictCase) *kit.Failure { return runC10Verdict(t, s, c) })
}
