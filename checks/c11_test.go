//go:build verif

package verifchecks

import (
	"fmt"
	"testing"

	kit "github.com/gittuf/gittuf/internal/verifkit"
	"github.com/gittuf/gittuf/pkg/rsl"
	"pgregory.net/rapid"
)

// ---------------------------------------------------------------------------
// C11 - Global rules add constraints; they never replace or weaken delegation rules
// ---------------------------------------------------------------------------

type c11Case struct {
	World kit.World `json:"world"`
	Gen   []string  `json:"gen,omitempty"`
}

func stripGlobals(w kit.World) kit.World {
	out := kit.World{Events: w.Events}
	for _, p := range w.Policies {
		q := p
		q.Globals = nil
		out.Policies = append(out.Policies, q)
	}
	return out
}

func runC11(t *testing.T, s *kit.Session, c c11Case) *kit.Failure {
	w := c.World
	wBase := stripGlobals(w)
	check := func(b *kit.Built) *kit.Failure {
		// (ii)+(iii): agreement with the model under P ∪ G
		if f := checkWorldC01(b, &w, true); f != nil {
			return f
		}
		return nil
	}
	rsl.VerifResetCache()
	st := kit.NewMemStore()
	b, err := kit.BuildWorld(st, &w)
	if err != nil {
		return &kit.Failure{Cause: "harness", Msg: "world does not build: " + err.Error()}
	}
	if f := confirmOnGit(t, &w, check(b), check); f != nil {
		return f
	}
	// (i) monotonicity: the same history under P (no global rules)
	rsl.VerifResetCache()
	stBase := kit.NewMemStore()
	bBase, err := kit.BuildWorld(stBase, &wBase)
	if err != nil {
		return &kit.Failure{Cause: "harness", Msg: "base world does not build: " + err.Error()}
	}
	weakened := 0
	for _, ref := range wgRefs {
		has := false
		for _, e := range w.Events {
			if (e.Kind == "push" || e.Kind == "prop") && e.Ref == ref {
				has = true
			}
		}
		if !has {
			continue
		}
		withG := verifyFull(b.Store, ref)
		without := verifyFull(bBase.Store, ref)
		if withG.Err == nil && without.Err != nil {
			return &kit.Failure{Cause: "global-rule-weakens", Msg: fmt.Sprintf("%s verifies with the global rules declared but is rejected by the delegation rules alone (%v)", ref, without.Err)}
		}
		if withG.Err != nil && without.Err == nil {
			weakened++
		}
	}
	genLabels := map[string]bool{}
	for _, g := range c.Gen {
		genLabels[g] = true
	}
	classes, _ := worldClasses(&w, genLabels)
	if weakened > 0 {
		classes = append(classes, "global_rule_blocks_otherwise_valid_history")
	}
	// non-trivial: a global rule and a delegation rule both present and an entry the delegation rules alone reject, or a force push
	hasGlobal, hasForce := false, false
	for _, p := range w.Policies {
		if len(p.Globals) > 0 {
			hasGlobal = true
		}
	}
	for _, e := range w.Events {
		if e.Force {
			hasForce = true
		}
	}
	mBase := &kit.Model{W: &wBase, Opts: kit.ModelOptions{}}
	baseRejects := false
	for _, ref := range wgRefs {
		if mBase.VerifyFull(ref).Kind == "REJECT" {
			baseRejects = true
		}
	}
	s.Observe(c, hasGlobal && (baseRejects || hasForce), classes...)
	return nil
}

func TestC11(t *testing.T) {
	s := kit.Open(t, "C11")
	run := func(c c11Case) *kit.Failure { return runC11(t, s, c) }
	if rf := kit.Replay(t); rf != nil {
		kit.DoReplay(s, t, rf, run)
		return
	}
	s.SetRule("rapid: the C01 worlds whose policy states additionally declare 0-3 global rules (threshold k in 1..3 or block-force-pushes; patterns matching the verified ref, another ref, a wildcard or nothing), with pushes, force pushes (non-descendant commits), approvals, annotations and policy changes. Oracles: (i) metamorphic monotonicity - the same history is built under P+G and under P alone, accept(P+G) => accept(P); (ii)/(iii) the reference model with global rules (policy-wide credit below k or a non-descendant target => reject, rule credit >= k and descendant => accept, in between unspecified) for VerifyRefFull / VerifyRef / VerifyRefFromEntry. Non-trivial: a global rule present and (the delegation rules alone reject the history, or a force push occurs)")
	opt := wgOptions{Delegation: true, Globals: true, PropProtected: true}
	kit.Campaign(s, t, "globals", "world", s.Budget(8_000, 250_000), func(rt *rapid.T) c11Case {
		cl := map[string]bool{}
		w := genWorld(rt, opt, cl)
		return c11Case{World: w, Gen: sortedKeys(cl)}
	}, run)
}
