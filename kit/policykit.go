//go:build verif

package verifkit

import (
	"context"
	"encoding/base64"
	"encoding/json"
	"fmt"
	"sort"

	"github.com/gittuf/gittuf/internal/common/set"
	"github.com/gittuf/gittuf/internal/policy"
	"github.com/gittuf/gittuf/internal/signerverifier/dsse"
	sslibdsse "github.com/gittuf/gittuf/internal/third_party/go-securesystemslib/dsse"
	"github.com/gittuf/gittuf/internal/tuf"
	tufv01 "github.com/gittuf/gittuf/internal/tuf/v01"
	tufv02 "github.com/gittuf/gittuf/internal/tuf/v02"
)

// PrincipalSpec describes one principal: a bare key (Person == "") or a
// person with one or more keys and optional associated identities.
type PrincipalSpec struct {
	Person     string            `json:"person,omitempty"`
	Keys       []int             `json:"keys"`
	Identities map[string]string `json:"identities,omitempty"`
}

// PID returns the principal's identifier as gittuf computes it.
func (p PrincipalSpec) PID() string {
	if p.Person != "" {
		return p.Person
	}
	return Key(p.Keys[0]).KeyID
}

func (p PrincipalSpec) Principal() tuf.Principal {
	if p.Person != "" {
		ks := make([]*TestKey, 0, len(p.Keys))
		for _, k := range p.Keys {
			ks = append(ks, Key(k))
		}
		return Person(p.Person, p.Identities, ks...)
	}
	return Key(p.Keys[0]).V02()
}

// RuleSpec is one rule of a rule file.
type RuleSpec struct {
	Name        string   `json:"name"`
	Patterns    []string `json:"patterns"`
	Principals  []int    `json:"principals"` // indices into the file's principal list
	Threshold   int      `json:"threshold"`
	Terminating bool     `json:"terminating,omitempty"`
}

// FileSpec is a rule file (primary or delegated).
type FileSpec struct {
	Version    uint64          `json:"version,omitempty"`
	Principals []PrincipalSpec `json:"principals,omitempty"`
	Rules      []RuleSpec      `json:"rules,omitempty"`
	Signers    []int           `json:"signers"` // key indices that sign the envelope
	NoAllow    bool            `json:"no_allow,omitempty"`
}

// GlobalSpec is a global rule.
type GlobalSpec struct {
	Name      string   `json:"name"`
	Kind      string   `json:"kind"` // "threshold" | "block-force-pushes"
	Patterns  []string `json:"patterns"`
	Threshold int      `json:"threshold,omitempty"`
}

// AppSpec is a GitHub app entry.
type AppSpec struct {
	Name    string `json:"name"`
	Key     int    `json:"key"`
	Trusted bool   `json:"trusted"`
}

// PolicySpec is a complete policy state as plain data.
type PolicySpec struct {
	RootVersion      uint64              `json:"root_version,omitempty"`
	RootPrincipals   []PrincipalSpec     `json:"root_principals"`
	RootThreshold    int                 `json:"root_threshold"`
	TargetsKeys      []PrincipalSpec     `json:"targets_principals"`
	TargetsThreshold int                 `json:"targets_threshold"`
	ExtraRootPrins   []PrincipalSpec     `json:"extra_root_principals,omitempty"` // defined in root, in no role
	Globals          []GlobalSpec        `json:"globals,omitempty"`
	Apps             []AppSpec           `json:"apps,omitempty"`
	RootSigners      []int               `json:"root_signers"`
	Targets          *FileSpec           `json:"targets,omitempty"`
	Delegated        map[string]FileSpec `json:"delegated,omitempty"`
}

func roleOf(ps []PrincipalSpec, threshold int) tufv02.Role {
	ids := make([]string, 0, len(ps))
	for _, p := range ps {
		ids = append(ids, p.PID())
	}
	return tufv02.Role{PrincipalIDs: set.NewSetFromItems(ids...), Threshold: threshold}
}

// BuildRoot returns the root metadata of the spec.
func BuildRoot(spec *PolicySpec) (*tufv02.RootMetadata, error) {
	root := tufv02.NewRootMetadata()
	if spec.RootVersion != 0 {
		root.Version = spec.RootVersion
	}
	root.Principals = map[string]tuf.Principal{}
	for _, group := range [][]PrincipalSpec{spec.RootPrincipals, spec.TargetsKeys, spec.ExtraRootPrins} {
		for _, p := range group {
			root.Principals[p.PID()] = p.Principal()
		}
	}
	root.Roles = map[string]tufv02.Role{tuf.RootRoleName: roleOf(spec.RootPrincipals, spec.RootThreshold)}
	if len(spec.TargetsKeys) > 0 {
		root.Roles[tuf.TargetsRoleName] = roleOf(spec.TargetsKeys, spec.TargetsThreshold)
	}
	for _, g := range spec.Globals {
		switch g.Kind {
		case "threshold":
			root.GlobalRules = append(root.GlobalRules, tufv02.NewGlobalRuleThreshold(g.Name, g.Patterns, g.Threshold))
		case "block-force-pushes":
			r, err := tufv02.NewGlobalRuleBlockForcePushes(g.Name, g.Patterns)
			if err != nil {
				return nil, err
			}
			root.GlobalRules = append(root.GlobalRules, r)
		default:
			return nil, fmt.Errorf("unknown global rule kind %q", g.Kind)
		}
	}
	for _, a := range spec.Apps {
		k := Key(a.Key)
		root.Principals[k.KeyID] = k.V02()
		if root.GitHubApps == nil {
			root.GitHubApps = map[string]*tufv02.GitHubApp{}
		}
		root.GitHubApps[a.Name] = &tufv01.GitHubApp{Trusted: a.Trusted, PrincipalIDs: set.NewSetFromItems(k.KeyID), Threshold: 1}
	}
	return root, nil
}

// BuildTargets returns the rule-file metadata of a file spec.
func BuildTargets(f *FileSpec) *tufv02.TargetsMetadata {
	t := tufv02.NewTargetsMetadata()
	if f.Version != 0 {
		t.Version = f.Version
	}
	t.Delegations = &tufv02.Delegations{Principals: map[string]tuf.Principal{}}
	for _, p := range f.Principals {
		t.Delegations.Principals[p.PID()] = p.Principal()
	}
	for _, r := range f.Rules {
		ids := make([]string, 0, len(r.Principals))
		for _, i := range r.Principals {
			ids = append(ids, f.Principals[i].PID())
		}
		t.Delegations.Roles = append(t.Delegations.Roles, &tufv02.Delegation{
			Name: r.Name, Paths: r.Patterns, Terminating: r.Terminating,
			Role: tufv02.Role{PrincipalIDs: set.NewSetFromItems(ids...), Threshold: r.Threshold},
		})
	}
	if !f.NoAllow {
		t.Delegations.Roles = append(t.Delegations.Roles, tufv02.AllowRule())
	}
	return t
}

// SignedEnvelope wraps v in a DSSE envelope signed by the given keys.
func SignedEnvelope(v any, signers []int) (*sslibdsse.Envelope, error) {
	env, err := dsse.CreateEnvelope(v)
	if err != nil {
		return nil, err
	}
	for _, k := range signers {
		env, err = dsse.SignEnvelope(context.Background(), env, Key(k).DSSE())
		if err != nil {
			return nil, err
		}
	}
	return env, nil
}

var stateMetaCache = map[string]*policy.StateMetadata{}

// BuildStateMetadata turns a spec into signed envelopes (memoised by spec).
func BuildStateMetadata(spec *PolicySpec) (*policy.StateMetadata, error) {
	keyB, _ := json.Marshal(spec)
	keyMu.Lock()
	cached, ok := stateMetaCache[string(keyB)]
	keyMu.Unlock()
	if ok {
		return cloneMeta(cached), nil
	}
	root, err := BuildRoot(spec)
	if err != nil {
		return nil, err
	}
	md := &policy.StateMetadata{}
	if md.RootEnvelope, err = SignedEnvelope(root, spec.RootSigners); err != nil {
		return nil, err
	}
	if spec.Targets != nil {
		if md.TargetsEnvelope, err = SignedEnvelope(BuildTargets(spec.Targets), spec.Targets.Signers); err != nil {
			return nil, err
		}
	}
	names := make([]string, 0, len(spec.Delegated))
	for name := range spec.Delegated {
		names = append(names, name)
	}
	sort.Strings(names)
	for _, name := range names {
		f := spec.Delegated[name]
		env, err := SignedEnvelope(BuildTargets(&f), f.Signers)
		if err != nil {
			return nil, err
		}
		if md.DelegationEnvelopes == nil {
			md.DelegationEnvelopes = map[string]*sslibdsse.Envelope{}
		}
		md.DelegationEnvelopes[name] = env
	}
	keyMu.Lock()
	if len(stateMetaCache) < 20000 {
		stateMetaCache[string(keyB)] = cloneMeta(md)
	}
	keyMu.Unlock()
	return md, nil
}

func cloneEnv(e *sslibdsse.Envelope) *sslibdsse.Envelope {
	if e == nil {
		return nil
	}
	c := *e
	c.Signatures = append([]sslibdsse.Signature(nil), e.Signatures...)
	return &c
}

func cloneMeta(m *policy.StateMetadata) *policy.StateMetadata {
	c := &policy.StateMetadata{RootEnvelope: cloneEnv(m.RootEnvelope), TargetsEnvelope: cloneEnv(m.TargetsEnvelope)}
	if m.DelegationEnvelopes != nil {
		c.DelegationEnvelopes = map[string]*sslibdsse.Envelope{}
		for k, v := range m.DelegationEnvelopes {
			c.DelegationEnvelopes[k] = cloneEnv(v)
		}
	}
	return c
}

// StageAndApply commits the spec to policy-staging (with an RSL entry) and
// applies it, through gittuf's own State.Commit and policy.Apply.
func StageAndApply(st RawStore, spec *PolicySpec) error {
	md, err := BuildStateMetadata(spec)
	if err != nil {
		return err
	}
	state := &policy.State{Metadata: md}
	if err := state.Commit(st, "policy", true, false); err != nil {
		return fmt.Errorf("State.Commit: %w", err)
	}
	if err := policy.Apply(context.Background(), st, false); err != nil {
		return fmt.Errorf("Apply: %w", err)
	}
	return nil
}

// EnvelopePayload decodes the JSON payload of an envelope.
func EnvelopePayload(e *sslibdsse.Envelope) []byte {
	b, _ := base64.StdEncoding.DecodeString(e.Payload)
	return b
}
