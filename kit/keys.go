//go:build verif

package verifkit

import (
	"bytes"
	"context"
	"crypto"
	"crypto/ed25519"
	"crypto/sha256"
	"encoding/base64"
	"encoding/pem"
	"fmt"
	"sync"

	"github.com/gittuf/gittuf/internal/tuf"
	tufv01 "github.com/gittuf/gittuf/internal/tuf/v01"
	tufv02 "github.com/gittuf/gittuf/internal/tuf/v02"
	"github.com/hiddeco/sshsig"
	"github.com/secure-systems-lab/go-securesystemslib/signerverifier"
	"golang.org/x/crypto/ssh"
)

// TestKey is a deterministic ed25519 key pair (seeded by index, never by an
// RNG at run time) in all the shapes gittuf consumes.
type TestKey struct {
	Index   int
	Priv    ed25519.PrivateKey
	SSHPub  ssh.PublicKey
	Signer  ssh.Signer
	PEM     []byte // OpenSSH private key, for CommitUsingSpecificKey
	SSLib   *signerverifier.SSLibKey
	KeyID   string
	rawSigs sync.Map
}

var (
	keyMu    sync.Mutex
	keyCache = map[int]*TestKey{}
)

// Key returns test key number i.
func Key(i int) *TestKey {
	keyMu.Lock()
	defer keyMu.Unlock()
	if k, ok := keyCache[i]; ok {
		return k
	}
	seed := sha256.Sum256([]byte(fmt.Sprintf("verif-gittuf-test-key-%d", i)))
	priv := ed25519.NewKeyFromSeed(seed[:])
	signer, err := ssh.NewSignerFromKey(priv)
	if err != nil {
		panic(err)
	}
	block, err := ssh.MarshalPrivateKey(crypto.PrivateKey(priv), "")
	if err != nil {
		panic(err)
	}
	pub := signer.PublicKey()
	keyID := ssh.FingerprintSHA256(pub)
	k := &TestKey{
		Index:  i,
		Priv:   priv,
		SSHPub: pub,
		Signer: signer,
		PEM:    pem.EncodeToMemory(block),
		KeyID:  keyID,
		SSLib: &signerverifier.SSLibKey{
			KeyID:   keyID,
			KeyType: "ssh",
			Scheme:  pub.Type(),
			KeyVal:  signerverifier.KeyVal{Public: base64.StdEncoding.EncodeToString(pub.Marshal())},
		},
	}
	keyCache[i] = k
	return k
}

// SignSSH produces the armored sshsig (namespace "git", sha512) over data,
// byte-identical in format to `ssh-keygen -Y sign -n git`.
func (k *TestKey) SignSSH(data []byte) []byte {
	sig, err := sshsig.Sign(bytes.NewReader(data), k.Signer, sshsig.HashSHA512, "git")
	if err != nil {
		panic(err)
	}
	return sshsig.Armor(sig)
}

// V01 returns the key as a tufv01/tufv02 Key principal.
func (k *TestKey) V01() *tufv01.Key { return tufv01.NewKeyFromSSLibKey(k.SSLib) }
func (k *TestKey) V02() *tufv02.Key { return tufv02.NewKeyFromSSLibKey(k.SSLib) }

// Principal returns the key as a tuf.Principal (v02 Key).
func (k *TestKey) Principal() tuf.Principal { return k.V02() }

// DSSESigner is an in-process dsse Signer/Verifier for a TestKey. The keyid it
// reports can be overridden to model envelopes with empty or foreign keyids.
type DSSESigner struct {
	K        *TestKey
	KeyIDStr *string
}

func (s *DSSESigner) Sign(_ context.Context, data []byte) ([]byte, error) {
	return s.K.SignSSH(data), nil
}

func (s *DSSESigner) KeyID() (string, error) {
	if s.KeyIDStr != nil {
		return *s.KeyIDStr, nil
	}
	return s.K.KeyID, nil
}

func (s *DSSESigner) Public() crypto.PublicKey { return s.K.Priv.Public() }

func (s *DSSESigner) Verify(_ context.Context, data, sig []byte) error {
	signature, err := sshsig.Unarmor(sig)
	if err != nil {
		return err
	}
	return sshsig.Verify(bytes.NewReader(data), signature, s.K.SSHPub, sshsig.HashSHA512, "git")
}

// Signer returns the default DSSE signer of the key.
func (k *TestKey) DSSE() *DSSESigner { return &DSSESigner{K: k} }

// Person builds a tufv02 Person with the given keys and optional associated
// identities (provider -> identity).
func Person(id string, identities map[string]string, keys ...*TestKey) *tufv02.Person {
	p := &tufv02.Person{PersonID: id, PublicKeys: map[string]*tufv02.Key{}, AssociatedIdentities: identities}
	for _, k := range keys {
		p.PublicKeys[k.KeyID] = k.V02()
	}
	return p
}
