//go:build verif

package verifkit

import (
	"fmt"
	"strings"

	"github.com/gittuf/gittuf/pkg/githash"
	"github.com/gittuf/gittuf/pkg/rsl"
)

// AbsEntry is an abstract RSL entry (plain data).
type AbsEntry struct {
	Kind   string `json:"kind"`             // "ref", "prop", "ann", "garbage"
	Ref    string `json:"ref,omitempty"`    // ref / prop
	Target int    `json:"target,omitempty"` // index into the commit pool (ref / prop)
	Up     string `json:"up,omitempty"`     // upstream repository (prop)
	Ann    []int  `json:"ann,omitempty"`    // positions of earlier entries (ann)
	Skip   bool   `json:"skip,omitempty"`
	Legacy bool   `json:"legacy,omitempty"` // recorded without number (only in a prefix)
	Msg    string `json:"msg,omitempty"`

	// filled in by the builder
	Number uint64 `json:"-"`
	ID     string `json:"-"`
}

// CommitPool is a small commit DAG used as entry targets:
// c0 <- c1 <- c2, c0 <- s1 (sibling of c1), u (unrelated root).
type CommitPool struct {
	IDs []githash.Hash // c0, c1, c2, s1, u
}

// PoolKnows is the model of KnowsCommit(x, y) on the pool: y is x or an ancestor of x.
func PoolKnows(x, y int) bool {
	anc := map[int][]int{0: {0}, 1: {1, 0}, 2: {2, 1, 0}, 3: {3, 0}, 4: {4}}
	for _, a := range anc[x] {
		if a == y {
			return true
		}
	}
	return false
}

// BuildCommitPool writes the pool's commits (distinct trees) into st.
func BuildCommitPool(st RawStore) (*CommitPool, error) {
	mk := func(content string, parents ...githash.Hash) (githash.Hash, error) {
		blob, err := st.WriteBlob([]byte(content))
		if err != nil {
			return nil, err
		}
		tree, err := st.WriteTree([]treeEntry{{Path: "f", ID: blob}})
		if err != nil {
			return nil, err
		}
		return st.RawCommit(tree, parents, "commit "+content+"\n", nil)
	}
	p := &CommitPool{}
	c0, err := mk("c0")
	if err != nil {
		return nil, err
	}
	c1, err := mk("c1", c0)
	if err != nil {
		return nil, err
	}
	c2, err := mk("c2", c1)
	if err != nil {
		return nil, err
	}
	s1, err := mk("s1", c0)
	if err != nil {
		return nil, err
	}
	u, err := mk("u")
	if err != nil {
		return nil, err
	}
	p.IDs = []githash.Hash{c0, c1, c2, s1, u}
	return p, nil
}

// Corruption plants one defect in the chain at position Pos.
type Corruption struct {
	Kind string `json:"kind"` // "extra-parent", "gap", "dup", "garbage"
	Pos  int    `json:"pos"`
}

// BuildLog records the abstract log on st. Well-formed prefixes go through
// gittuf's own write path (Commit / CommitWithoutNumber); from the corruption
// position on, entries are written as raw commits carrying the canonical text.
// It fills in Number and ID of every entry.
func BuildLog(st RawStore, pool *CommitPool, log []AbsEntry, cor *Corruption) error {
	empty, err := st.EmptyTree()
	if err != nil {
		return err
	}
	raw := false
	var prevNum uint64
	for i := range log {
		e := &log[i]
		if cor != nil && cor.Pos == i {
			raw = true
		}
		var ent rsl.Entry
		switch e.Kind {
		case "ref":
			ent = rsl.NewReferenceEntry(e.Ref, pool.IDs[e.Target])
		case "prop":
			ent = rsl.NewPropagationEntry(e.Ref, pool.IDs[e.Target], e.Up, pool.IDs[4])
		case "ann":
			ids := make([]githash.Hash, 0, len(e.Ann))
			for _, j := range e.Ann {
				ids = append(ids, mustHash(log[j].ID))
			}
			ent = rsl.NewAnnotationEntry(ids, e.Skip, e.Msg)
		default:
			return fmt.Errorf("unknown abstract entry kind %q", e.Kind)
		}
		if !raw {
			switch v := ent.(type) {
			case *rsl.ReferenceEntry:
				if e.Legacy {
					err = v.CommitWithoutNumber(st)
				} else {
					err = v.Commit(st, false)
				}
			case *rsl.AnnotationEntry:
				if e.Legacy {
					err = v.CommitWithoutNumber(st)
				} else {
					err = v.Commit(st, false)
				}
			case *rsl.PropagationEntry:
				err = v.Commit(st, false)
			}
			if err != nil {
				return fmt.Errorf("recording entry %d: %w", i, err)
			}
			tip, err := st.GetReference(rsl.Ref)
			if err != nil {
				return err
			}
			e.ID = tip.String()
			if e.Legacy {
				e.Number = 0
			} else {
				e.Number = prevNum + 1
			}
			prevNum = e.Number
			continue
		}
		// raw region
		num := prevNum + 1
		if e.Legacy {
			num = 0
		}
		garbage := false
		var parents []githash.Hash
		if i > 0 {
			parents = []githash.Hash{mustHash(log[i-1].ID)}
		}
		if cor.Pos == i {
			switch cor.Kind {
			case "gap":
				num = prevNum + 2
			case "dup":
				num = prevNum
			case "extra-parent":
				parents = append(parents, pool.IDs[4])
			case "garbage":
				garbage = true
			}
		}
		var text string
		switch v := ent.(type) {
		case *rsl.ReferenceEntry:
			v.Number = num
			text, _ = rsl.VerifCanonicalText(v)
		case *rsl.AnnotationEntry:
			v.Number = num
			text, _ = rsl.VerifCanonicalText(v)
		case *rsl.PropagationEntry:
			v.Number = num
			text, _ = rsl.VerifCanonicalText(v)
		}
		if garbage {
			text = "this is not an RSL entry\n\nref: " + e.Ref
			e.Kind = "garbage"
		}
		id, err := st.RawCommit(empty, parents, text, nil)
		if err != nil {
			return err
		}
		if err := st.SetReference(rsl.Ref, id); err != nil {
			return err
		}
		e.ID = id.String()
		e.Number = num
		prevNum = num
	}
	return nil
}

// IsGittufRef mirrors the documented namespace split.
func IsGittufRef(ref string) bool { return strings.HasPrefix(ref, "refs/gittuf/") }
