//go:build verif

package verifkit

import (
	"bytes"
	"crypto/sha1" //nolint:gosec
	"encoding/hex"
	"errors"
	"fmt"
	"sort"
	"strings"
	"sync"

	"github.com/gittuf/gittuf/pkg/githash"
	"github.com/gittuf/gittuf/pkg/gitstore"
)

// MemStore is an in-memory gitstore.Storer with real Git object encodings and
// SHA-1 object ids. It mirrors the observable behaviour of
// *gitinterface.Repository for the 24 Storer methods (see memstore_diff_test
// for the differential self-check against real Git).
type MemStore struct {
	mu      *sync.Mutex
	objects map[string]*memObj // shared between snapshots (content addressed, append only)
	refs    map[string]string  // ref name -> hex id
	config  map[gitstore.ConfigKey]string

	// DefaultSigner signs commits created with Commit(..., sign=true).
	DefaultSigner *TestKey
}

type memObj struct {
	typ  string // blob, tree, commit, tag
	data []byte
	// parsed forms (lazily)
	commit *memCommit
	tree   []memTreeEntry
	tag    *memTag
}

type memCommit struct {
	tree    string
	parents []string
	message string
	sig     string
	payload []byte // encoding without the gpgsig header
}

type memTag struct {
	object  string
	typ     string
	name    string
	message string
	sig     string
	payload []byte
}

type memTreeEntry struct {
	mode string
	name string
	id   string
}

const (
	memIdent    = "Jane Doe <jane.doe@example.com> 814698000 +0000"
	emptyTreeID = "4b825dc642cb6eb9a060e54bf8d69288fbee4904"
)

var zeroHashHex = strings.Repeat("0", 40)

// NewMemStore returns an empty store configured like gitinterface's test
// repositories (user.name / user.email set).
func NewMemStore() *MemStore {
	return &MemStore{
		mu:      &sync.Mutex{},
		objects: map[string]*memObj{},
		refs:    map[string]string{},
		config: map[gitstore.ConfigKey]string{
			gitstore.ConfigUserName:  "Jane Doe",
			gitstore.ConfigUserEmail: "jane.doe@example.com",
		},
	}
}

// Snapshot returns an independent store (own refs) sharing the object map.
func (m *MemStore) Snapshot() *MemStore {
	m.mu.Lock()
	defer m.mu.Unlock()
	refs := make(map[string]string, len(m.refs))
	for k, v := range m.refs {
		refs[k] = v
	}
	cfg := make(map[gitstore.ConfigKey]string, len(m.config))
	for k, v := range m.config {
		cfg[k] = v
	}
	return &MemStore{mu: m.mu, objects: m.objects, refs: refs, config: cfg, DefaultSigner: m.DefaultSigner}
}

func hashHex(h githash.Hash) string { return hex.EncodeToString(h) }

func mustHash(s string) githash.Hash {
	b, err := hex.DecodeString(s)
	if err != nil {
		panic(err)
	}
	return githash.Hash(b)
}

func (m *MemStore) put(typ string, data []byte) string {
	h := sha1.New() //nolint:gosec
	fmt.Fprintf(h, "%s %d\x00", typ, len(data))
	h.Write(data)
	id := hex.EncodeToString(h.Sum(nil))
	if _, ok := m.objects[id]; !ok {
		m.objects[id] = &memObj{typ: typ, data: append([]byte(nil), data...)}
	}
	return id
}

func (m *MemStore) get(id string) (*memObj, bool) {
	if id == emptyTreeID {
		if _, ok := m.objects[id]; !ok {
			m.objects[id] = &memObj{typ: "tree"}
		}
	}
	o, ok := m.objects[id]
	return o, ok
}

func (m *MemStore) getCommit(id string) (*memCommit, error) {
	o, ok := m.get(id)
	if !ok {
		return nil, fmt.Errorf("unable to inspect if object is commit: object %s not found", id)
	}
	if o.typ != "commit" {
		return nil, fmt.Errorf("requested Git ID '%s' is not a commit object", id)
	}
	if o.commit == nil {
		c, err := parseCommit(o.data)
		if err != nil {
			return nil, err
		}
		o.commit = c
	}
	return o.commit, nil
}

func parseCommit(data []byte) (*memCommit, error) {
	c := &memCommit{}
	idx := bytes.Index(data, []byte("\n\n"))
	var header []byte
	if idx < 0 {
		header = data
	} else {
		header = data[:idx]
		c.message = string(data[idx+2:])
	}
	lines := strings.Split(string(header), "\n")
	var payload bytes.Buffer
	inSig := false
	first := true
	for _, line := range lines {
		if inSig && strings.HasPrefix(line, " ") {
			c.sig += line[1:] + "\n"
			continue
		}
		inSig = false
		if strings.HasPrefix(line, "gpgsig ") {
			c.sig += strings.TrimPrefix(line, "gpgsig ") + "\n"
			inSig = true
			continue
		}
		switch {
		case strings.HasPrefix(line, "tree "):
			c.tree = strings.TrimPrefix(line, "tree ")
		case strings.HasPrefix(line, "parent "):
			c.parents = append(c.parents, strings.TrimPrefix(line, "parent "))
		}
		if !first {
			payload.WriteByte('\n')
		}
		first = false
		payload.WriteString(line)
	}
	payload.WriteString("\n\n")
	payload.WriteString(c.message)
	c.payload = payload.Bytes()
	return c, nil
}

func encodeCommit(tree string, parents []string, message, sig string) []byte {
	var b bytes.Buffer
	fmt.Fprintf(&b, "tree %s\n", tree)
	for _, p := range parents {
		fmt.Fprintf(&b, "parent %s\n", p)
	}
	fmt.Fprintf(&b, "author %s\ncommitter %s", memIdent, memIdent)
	if sig != "" {
		b.WriteString("\ngpgsig ")
		b.WriteString(strings.Join(strings.Split(strings.TrimSuffix(sig, "\n"), "\n"), "\n "))
	}
	b.WriteString("\n\n")
	b.WriteString(message)
	return b.Bytes()
}

func (m *MemStore) getTree(id string) ([]memTreeEntry, error) {
	o, ok := m.get(id)
	if !ok {
		return nil, fmt.Errorf("unable to enumerate items in tree '%s': not a valid object name", id)
	}
	if o.typ == "commit" {
		c, err := m.getCommit(id)
		if err != nil {
			return nil, err
		}
		return m.getTree(c.tree)
	}
	if o.typ == "tag" {
		t, err := m.getTag(id)
		if err != nil {
			return nil, err
		}
		return m.getTree(t.object)
	}
	if o.typ != "tree" {
		return nil, fmt.Errorf("unable to enumerate items in tree '%s': not a tree object", id)
	}
	if o.tree == nil && len(o.data) > 0 {
		var entries []memTreeEntry
		d := o.data
		for len(d) > 0 {
			sp := bytes.IndexByte(d, ' ')
			nul := bytes.IndexByte(d, 0)
			if sp < 0 || nul < 0 || nul+21 > len(d) {
				return nil, fmt.Errorf("corrupt tree %s", id)
			}
			entries = append(entries, memTreeEntry{mode: string(d[:sp]), name: string(d[sp+1 : nul]), id: hex.EncodeToString(d[nul+1 : nul+21])})
			d = d[nul+21:]
		}
		o.tree = entries
	}
	return o.tree, nil
}

func treeSortKey(e memTreeEntry) string {
	if e.mode == "40000" {
		return e.name + "/"
	}
	return e.name
}

func (m *MemStore) putTree(entries []memTreeEntry) string {
	sort.Slice(entries, func(i, j int) bool { return treeSortKey(entries[i]) < treeSortKey(entries[j]) })
	var b bytes.Buffer
	for _, e := range entries {
		b.WriteString(e.mode)
		b.WriteByte(' ')
		b.WriteString(e.name)
		b.WriteByte(0)
		raw, _ := hex.DecodeString(e.id)
		b.Write(raw)
	}
	return m.put("tree", b.Bytes())
}

// ---- gitstore.Storer ------------------------------------------------------

func (m *MemStore) GetReference(refName string) (githash.Hash, error) {
	m.mu.Lock()
	defer m.mu.Unlock()
	id, ok := m.refs[refName]
	if !ok {
		return m.ZeroHash(), gitstore.ErrReferenceNotFound
	}
	return mustHash(id), nil
}

func (m *MemStore) SetReference(refName string, gitID githash.Hash) error {
	m.mu.Lock()
	defer m.mu.Unlock()
	id := hashHex(gitID)
	if _, ok := m.get(id); !ok {
		return fmt.Errorf("unable to set Git reference '%s' to '%s': object not found", refName, id)
	}
	m.refs[refName] = id
	return nil
}

func (m *MemStore) DeleteReference(refName string) error {
	m.mu.Lock()
	defer m.mu.Unlock()
	delete(m.refs, refName) // git update-ref -d on a missing ref succeeds
	return nil
}

func (m *MemStore) ReadBlob(blobID githash.Hash) ([]byte, error) {
	m.mu.Lock()
	defer m.mu.Unlock()
	o, ok := m.get(hashHex(blobID))
	if !ok {
		return nil, fmt.Errorf("unable to inspect if object is blob: %s not found", blobID.String())
	}
	if o.typ != "blob" {
		return nil, fmt.Errorf("requested Git ID '%s' is not a blob object", blobID.String())
	}
	return append([]byte{}, o.data...), nil
}

func (m *MemStore) WriteBlob(contents []byte) (githash.Hash, error) {
	m.mu.Lock()
	defer m.mu.Unlock()
	return mustHash(m.put("blob", contents)), nil
}

func (m *MemStore) EmptyTree() (githash.Hash, error) { return mustHash(emptyTreeID), nil }

type memTreeNode struct {
	children map[string]*memTreeNode
	order    []string
	leaf     *memTreeEntry
}

func (m *MemStore) WriteTree(entries []gitstore.TreeEntry) (githash.Hash, error) {
	m.mu.Lock()
	defer m.mu.Unlock()
	seen := map[string]struct{}{}
	for _, e := range entries {
		if _, ok := seen[e.Path]; ok {
			return githash.ZeroHash, fmt.Errorf("%w: %s", gitstore.ErrDuplicateTreePath, e.Path)
		}
		seen[e.Path] = struct{}{}
	}
	root := &memTreeNode{children: map[string]*memTreeNode{}}
	for _, e := range entries {
		parts := strings.Split(e.Path, "/")
		cur := root
		for i, part := range parts {
			child, ok := cur.children[part]
			last := i == len(parts)-1
			if !ok {
				child = &memTreeNode{children: map[string]*memTreeNode{}}
				if last {
					mode := "100644"
					if e.Kind == gitstore.KindSubtree {
						mode = "40000"
					}
					child.leaf = &memTreeEntry{mode: mode, name: part, id: hashHex(e.ID)}
				}
				cur.children[part] = child
				cur.order = append(cur.order, part)
			}
			// mirrors TreeBuilder: the first registration of a path wins
			if child.leaf != nil {
				break
			}
			cur = child
		}
	}
	id, err := m.writeNode(root)
	if err != nil {
		return githash.ZeroHash, err
	}
	return mustHash(id), nil
}

func (m *MemStore) writeNode(n *memTreeNode) (string, error) {
	var entries []memTreeEntry
	names := map[string]bool{}
	for _, name := range n.order {
		c := n.children[name]
		if names[name] {
			return "", fmt.Errorf("unable to write Git tree: duplicate entry %s", name)
		}
		names[name] = true
		if c.leaf != nil {
			if _, ok := m.get(c.leaf.id); !ok {
				return "", fmt.Errorf("unable to write Git tree: entry '%s' object %s is unavailable", name, c.leaf.id)
			}
			entries = append(entries, *c.leaf)
			continue
		}
		id, err := m.writeNode(c)
		if err != nil {
			return "", err
		}
		entries = append(entries, memTreeEntry{mode: "40000", name: name, id: id})
	}
	return m.putTree(entries), nil
}

func (m *MemStore) allFiles(treeID, prefix string, out map[string]string) error {
	entries, err := m.getTree(treeID)
	if err != nil {
		return err
	}
	for _, e := range entries {
		if e.mode == "40000" {
			if err := m.allFiles(e.id, prefix+e.name+"/", out); err != nil {
				return err
			}
		} else {
			out[prefix+e.name] = e.id
		}
	}
	return nil
}

func (m *MemStore) GetAllFilesInTree(treeID githash.Hash) (map[string]githash.Hash, error) {
	m.mu.Lock()
	defer m.mu.Unlock()
	files := map[string]string{}
	if err := m.allFiles(hashHex(treeID), "", files); err != nil {
		return nil, fmt.Errorf("unable to enumerate all files in tree: %w", err)
	}
	if len(files) == 0 {
		return nil, nil
	}
	out := make(map[string]githash.Hash, len(files))
	for p, id := range files {
		out[p] = mustHash(id)
	}
	return out, nil
}

func (m *MemStore) GetEntriesInTree(treeID githash.Hash) ([]gitstore.TreeEntry, error) {
	m.mu.Lock()
	defer m.mu.Unlock()
	entries, err := m.getTree(hashHex(treeID))
	if err != nil {
		return nil, err
	}
	if len(entries) == 0 {
		return nil, nil
	}
	out := make([]gitstore.TreeEntry, 0, len(entries))
	for _, e := range entries {
		kind := gitstore.KindBlob
		if e.mode == "40000" {
			kind = gitstore.KindSubtree
		}
		out = append(out, gitstore.TreeEntry{Path: e.name, ID: mustHash(e.id), Kind: kind})
	}
	return out, nil
}

var errTreeDoesNotHavePath = errors.New("tree does not have requested path")

func (m *MemStore) GetPathIDInTree(treeID githash.Hash, treePath string) (githash.Hash, error) {
	m.mu.Lock()
	defer m.mu.Unlock()
	treePath = strings.TrimSuffix(treePath, "/")
	cur := hashHex(treeID)
	for _, comp := range strings.Split(treePath, "/") {
		entries, err := m.getTree(cur)
		if err != nil {
			return nil, err
		}
		found := false
		for _, e := range entries {
			if e.name == comp {
				cur = e.id
				found = true
				break
			}
		}
		if !found {
			return nil, fmt.Errorf("%w: %s", errTreeDoesNotHavePath, treePath)
		}
	}
	return mustHash(cur), nil
}

func (m *MemStore) GetCommitTreeID(commitID githash.Hash) (githash.Hash, error) {
	m.mu.Lock()
	defer m.mu.Unlock()
	c, err := m.getCommit(hashHex(commitID))
	if err != nil {
		return githash.ZeroHash, err
	}
	return mustHash(c.tree), nil
}

func (m *MemStore) GetCommitMessage(commitID githash.Hash) (string, error) {
	m.mu.Lock()
	defer m.mu.Unlock()
	c, err := m.getCommit(hashHex(commitID))
	if err != nil {
		return "", err
	}
	return strings.TrimSpace(c.message), nil
}

func (m *MemStore) GetCommitParentIDs(commitID githash.Hash) ([]githash.Hash, error) {
	m.mu.Lock()
	defer m.mu.Unlock()
	c, err := m.getCommit(hashHex(commitID))
	if err != nil {
		return nil, err
	}
	if len(c.parents) == 0 {
		return nil, nil
	}
	out := make([]githash.Hash, 0, len(c.parents))
	for _, p := range c.parents {
		out = append(out, mustHash(p))
	}
	return out, nil
}

// reachable returns the set of commits reachable from id (inclusive).
func (m *MemStore) reachable(id string, stopAt map[string]bool) (map[string]bool, error) {
	seen := map[string]bool{}
	stack := []string{id}
	for len(stack) > 0 {
		cur := stack[len(stack)-1]
		stack = stack[:len(stack)-1]
		if seen[cur] || (stopAt != nil && stopAt[cur]) {
			continue
		}
		c, err := m.getCommit(cur)
		if err != nil {
			return nil, err
		}
		seen[cur] = true
		stack = append(stack, c.parents...)
	}
	return seen, nil
}

func (m *MemStore) GetCommitsBetweenRange(commitNewID, commitOldID githash.Hash) ([]githash.Hash, error) {
	m.mu.Lock()
	defer m.mu.Unlock()
	var exclude map[string]bool
	if !commitOldID.IsZero() {
		var err error
		exclude, err = m.reachable(hashHex(commitOldID), nil)
		if err != nil {
			return nil, fmt.Errorf("unable to enumerate commits in range: %w", err)
		}
	}
	incl, err := m.reachable(hashHex(commitNewID), exclude)
	if err != nil {
		return nil, fmt.Errorf("unable to enumerate commits in range: %w", err)
	}
	ids := make([]string, 0, len(incl))
	for id := range incl {
		ids = append(ids, id)
	}
	sort.Strings(ids)
	out := make([]githash.Hash, 0, len(ids))
	for _, id := range ids {
		out = append(out, mustHash(id))
	}
	return out, nil
}

func (m *MemStore) diffNames(treeA, treeB string) ([]string, error) {
	a, b := map[string]string{}, map[string]string{}
	if err := m.allFiles(treeA, "", a); err != nil {
		return nil, err
	}
	if err := m.allFiles(treeB, "", b); err != nil {
		return nil, err
	}
	var names []string
	for p, id := range a {
		if b[p] != id {
			names = append(names, p)
		}
	}
	for p := range b {
		if _, ok := a[p]; !ok {
			names = append(names, p)
		}
	}
	sort.Strings(names)
	return names, nil
}

func (m *MemStore) GetFilePathsChangedByCommit(commitID githash.Hash) ([]string, error) {
	m.mu.Lock()
	defer m.mu.Unlock()
	c, err := m.getCommit(hashHex(commitID))
	if err != nil {
		return nil, err
	}
	switch len(c.parents) {
	case 0:
		files := map[string]string{}
		if err := m.allFiles(c.tree, "", files); err != nil {
			return nil, err
		}
		names := make([]string, 0, len(files))
		for p := range files {
			names = append(names, p)
		}
		sort.Strings(names)
		if len(names) == 0 {
			return []string{""}, nil // strings.Split("", "\n") in gitinterface
		}
		return names, nil
	case 1:
		p, err := m.getCommit(c.parents[0])
		if err != nil {
			return nil, err
		}
		names, err := m.diffNames(p.tree, c.tree)
		if err != nil {
			return nil, err
		}
		if len(names) == 0 {
			return nil, nil
		}
		return names, nil
	default:
		last, err := m.getCommit(c.parents[len(c.parents)-1])
		if err != nil {
			return nil, err
		}
		names, err := m.diffNames(last.tree, c.tree)
		if err != nil {
			return nil, err
		}
		if len(names) == 0 {
			return nil, nil
		}
		set := map[string]bool{}
		for _, pid := range c.parents {
			p, err := m.getCommit(pid)
			if err != nil {
				return nil, err
			}
			names, err := m.diffNames(p.tree, c.tree)
			if err != nil {
				return nil, err
			}
			for _, n := range names {
				set[n] = true
			}
		}
		out := make([]string, 0, len(set))
		for n := range set {
			out = append(out, n)
		}
		sort.Strings(out)
		return out, nil
	}
}

func (m *MemStore) KnowsCommit(commitID, ancestorID githash.Hash) (bool, error) {
	m.mu.Lock()
	defer m.mu.Unlock()
	if _, err := m.getCommit(hashHex(commitID)); err != nil {
		return false, err
	}
	if _, err := m.getCommit(hashHex(ancestorID)); err != nil {
		return false, err
	}
	r, err := m.reachable(hashHex(commitID), nil)
	if err != nil {
		return false, nil
	}
	return r[hashHex(ancestorID)], nil
}

// mergeBase returns a best common ancestor of a and b ("" if none).
func (m *MemStore) mergeBase(a, b string) (string, error) {
	ra, err := m.reachable(a, nil)
	if err != nil {
		return "", err
	}
	rb, err := m.reachable(b, nil)
	if err != nil {
		return "", err
	}
	var common []string
	for id := range ra {
		if rb[id] {
			common = append(common, id)
		}
	}
	sort.Strings(common)
	// best = a common ancestor that is not an ancestor of another common ancestor
	for _, cand := range common {
		best := true
		for _, other := range common {
			if other == cand {
				continue
			}
			ro, err := m.reachable(other, nil)
			if err != nil {
				return "", err
			}
			if ro[cand] {
				best = false
				break
			}
		}
		if best {
			return cand, nil
		}
	}
	return "", nil
}

func (m *MemStore) GetMergeTree(commitAID, commitBID githash.Hash) (githash.Hash, error) {
	m.mu.Lock()
	defer m.mu.Unlock()
	cb, err := m.getCommit(hashHex(commitBID))
	if err != nil {
		return githash.ZeroHash, err
	}
	if commitAID.IsZero() {
		return mustHash(cb.tree), nil
	}
	ca, err := m.getCommit(hashHex(commitAID))
	if err != nil {
		return githash.ZeroHash, err
	}
	baseID, err := m.mergeBase(hashHex(commitAID), hashHex(commitBID))
	if err != nil {
		return githash.ZeroHash, err
	}
	if baseID == "" {
		return githash.ZeroHash, errors.New("unable to compute merge tree: refusing to merge unrelated histories")
	}
	base := map[string]string{}
	if baseID != "" {
		bc, err := m.getCommit(baseID)
		if err != nil {
			return githash.ZeroHash, err
		}
		if err := m.allFiles(bc.tree, "", base); err != nil {
			return githash.ZeroHash, err
		}
	}
	fa, fb := map[string]string{}, map[string]string{}
	if err := m.allFiles(ca.tree, "", fa); err != nil {
		return githash.ZeroHash, err
	}
	if err := m.allFiles(cb.tree, "", fb); err != nil {
		return githash.ZeroHash, err
	}
	merged := map[string]string{}
	paths := map[string]bool{}
	for p := range base {
		paths[p] = true
	}
	for p := range fa {
		paths[p] = true
	}
	for p := range fb {
		paths[p] = true
	}
	for p := range paths {
		o, a, b := base[p], fa[p], fb[p]
		switch {
		case a == b:
			if a != "" {
				merged[p] = a
			}
		case a == o:
			if b != "" {
				merged[p] = b
			}
		case b == o:
			if a != "" {
				merged[p] = a
			}
		default:
			return githash.ZeroHash, fmt.Errorf("unable to compute merge tree: conflict in %s", p)
		}
	}
	root := &memTreeNode{children: map[string]*memTreeNode{}}
	keys := make([]string, 0, len(merged))
	for p := range merged {
		keys = append(keys, p)
	}
	sort.Strings(keys)
	for _, p := range keys {
		parts := strings.Split(p, "/")
		cur := root
		for i, part := range parts {
			child, ok := cur.children[part]
			if !ok {
				child = &memTreeNode{children: map[string]*memTreeNode{}}
				if i == len(parts)-1 {
					child.leaf = &memTreeEntry{mode: "100644", name: part, id: merged[p]}
				}
				cur.children[part] = child
				cur.order = append(cur.order, part)
			}
			cur = child
		}
	}
	id, err := m.writeNode(root)
	if err != nil {
		return githash.ZeroHash, err
	}
	return mustHash(id), nil
}

func (m *MemStore) getTag(id string) (*memTag, error) {
	o, ok := m.get(id)
	if !ok || o.typ != "tag" {
		return nil, fmt.Errorf("requested Git ID '%s' is not a tag object", id)
	}
	if o.tag == nil {
		t := &memTag{}
		data := string(o.data)
		idx := strings.Index(data, "\n\n")
		header := data
		body := ""
		if idx >= 0 {
			header, body = data[:idx], data[idx+2:]
		}
		for _, line := range strings.Split(header, "\n") {
			switch {
			case strings.HasPrefix(line, "object "):
				t.object = strings.TrimPrefix(line, "object ")
			case strings.HasPrefix(line, "type "):
				t.typ = strings.TrimPrefix(line, "type ")
			case strings.HasPrefix(line, "tag "):
				t.name = strings.TrimPrefix(line, "tag ")
			}
		}
		sigIdx := -1
		for _, marker := range []string{"-----BEGIN SSH SIGNATURE-----", "-----BEGIN PGP SIGNATURE-----", "-----BEGIN SIGNED MESSAGE-----"} {
			if i := strings.Index(body, marker); i >= 0 && (sigIdx < 0 || i < sigIdx) {
				sigIdx = i
			}
		}
		if sigIdx >= 0 {
			t.message, t.sig = body[:sigIdx], body[sigIdx:]
		} else {
			t.message = body
		}
		t.payload = []byte(header + "\n\n" + t.message)
		o.tag = t
	}
	return o.tag, nil
}

func (m *MemStore) GetTagTarget(tagID githash.Hash) (githash.Hash, error) {
	m.mu.Lock()
	defer m.mu.Unlock()
	// git rev-list -n 1 <id>: peels tags down to a commit; a commit resolves to itself
	cur := hashHex(tagID)
	for i := 0; i < 16; i++ {
		o, ok := m.get(cur)
		if !ok {
			return githash.ZeroHash, fmt.Errorf("unable to resolve tag's target ID: bad object %s", cur)
		}
		switch o.typ {
		case "commit":
			return mustHash(cur), nil
		case "tag":
			t, err := m.getTag(cur)
			if err != nil {
				return githash.ZeroHash, err
			}
			cur = t.object
		default:
			return githash.ZeroHash, fmt.Errorf("unable to resolve tag's target ID: %s is a %s", cur, o.typ)
		}
	}
	return githash.ZeroHash, fmt.Errorf("unable to resolve tag's target ID: too deep")
}

var errNotCommitOrTag = errors.New("invalid object type, expected commit or tag for signature verification")

func (m *MemStore) GetObjectSignature(objectID githash.Hash) ([]byte, []byte, error) {
	m.mu.Lock()
	defer m.mu.Unlock()
	id := hashHex(objectID)
	o, ok := m.get(id)
	if !ok {
		return nil, nil, errNotCommitOrTag
	}
	switch o.typ {
	case "commit":
		c, err := m.getCommit(id)
		if err != nil {
			return nil, nil, err
		}
		return append([]byte{}, c.payload...), []byte(c.sig), nil
	case "tag":
		t, err := m.getTag(id)
		if err != nil {
			return nil, nil, err
		}
		return append([]byte{}, t.payload...), []byte(t.sig), nil
	}
	return nil, nil, errNotCommitOrTag
}

func (m *MemStore) commitLocked(treeID githash.Hash, targetRef, message string, signer *TestKey, appendNewline bool) (githash.Hash, error) {
	tree := hashHex(treeID)
	if o, ok := m.get(tree); !ok || o.typ != "tree" {
		return githash.ZeroHash, fmt.Errorf("unable to create commit: %s is not a valid 'tree' object", tree)
	}
	cur, has := m.refs[targetRef]
	var parents []string
	if has {
		if _, err := m.getCommit(cur); err != nil {
			return githash.ZeroHash, fmt.Errorf("unable to create commit: %w", err)
		}
		parents = []string{cur}
	}
	if appendNewline && message != "" && !strings.HasSuffix(message, "\n") {
		message += "\n"
	}
	sig := ""
	if signer != nil {
		sig = string(signer.SignSSH(encodeCommit(tree, parents, message, "")))
	}
	id := m.put("commit", encodeCommit(tree, parents, message, sig))
	// compare-and-set: the ref must still hold the value read above
	now, hasNow := m.refs[targetRef]
	if hasNow != has || now != cur {
		return githash.ZeroHash, fmt.Errorf("unable to set Git reference '%s' to '%s': reference changed", targetRef, id)
	}
	m.refs[targetRef] = id
	return mustHash(id), nil
}

func (m *MemStore) Commit(treeID githash.Hash, targetRef, message string, sign bool) (githash.Hash, error) {
	m.mu.Lock()
	defer m.mu.Unlock()
	var signer *TestKey
	if sign {
		if m.DefaultSigner == nil {
			return githash.ZeroHash, errors.New("unable to create commit: no signing key configured")
		}
		signer = m.DefaultSigner
	}
	return m.commitLocked(treeID, targetRef, message, signer, true)
}

func (m *MemStore) CommitUsingSpecificKey(treeID githash.Hash, targetRef, message string, signingKeyPEMBytes []byte) (githash.Hash, error) {
	k := keyByPEM(signingKeyPEMBytes)
	if k == nil {
		return githash.ZeroHash, errors.New("memstore: unknown signing key (only verifkit test keys are supported)")
	}
	m.mu.Lock()
	defer m.mu.Unlock()
	return m.commitLocked(treeID, targetRef, message, k, false)
}

func keyByPEM(pemBytes []byte) *TestKey {
	keyMu.Lock()
	defer keyMu.Unlock()
	for _, k := range keyCache {
		if bytes.Equal(k.PEM, pemBytes) {
			return k
		}
	}
	return nil
}

func (m *MemStore) ZeroHash() githash.Hash { return mustHash(zeroHashHex) }

func (m *MemStore) LookupConfig(key gitstore.ConfigKey) (string, bool, error) {
	m.mu.Lock()
	defer m.mu.Unlock()
	v, ok := m.config[key]
	return v, ok, nil
}

// SetConfig sets a config value (test helper).
func (m *MemStore) SetConfig(key gitstore.ConfigKey, value string) {
	m.mu.Lock()
	defer m.mu.Unlock()
	m.config[key] = value
}

func (m *MemStore) ResetDueToError(cause error, refName string, commitID githash.Hash) error {
	m.mu.Lock()
	defer m.mu.Unlock()
	id := hashHex(commitID)
	if _, ok := m.get(id); !ok {
		return fmt.Errorf("unable to reset %s to %s, caused by following error: %w", refName, id, cause)
	}
	m.refs[refName] = id
	return cause
}

// ---- raw access (what an attacker with push access can write) -----------------

// RawCommit writes a commit object with arbitrary parents and message without
// touching any reference.
func (m *MemStore) RawCommit(treeID githash.Hash, parents []githash.Hash, message string, signer *TestKey) (githash.Hash, error) {
	m.mu.Lock()
	defer m.mu.Unlock()
	ps := make([]string, 0, len(parents))
	for _, p := range parents {
		ps = append(ps, hashHex(p))
	}
	tree := hashHex(treeID)
	sig := ""
	if signer != nil {
		sig = string(signer.SignSSH(encodeCommit(tree, ps, message, "")))
	}
	return mustHash(m.put("commit", encodeCommit(tree, ps, message, sig))), nil
}

// RawTag writes an annotated tag object pointing at target.
func (m *MemStore) RawTag(target githash.Hash, name, message string, signer *TestKey) (githash.Hash, error) {
	m.mu.Lock()
	defer m.mu.Unlock()
	o, ok := m.get(hashHex(target))
	if !ok {
		return nil, fmt.Errorf("tag target %s not found", target.String())
	}
	if !strings.HasSuffix(message, "\n") {
		message += "\n"
	}
	payload := fmt.Sprintf("object %s\ntype %s\ntag %s\ntagger %s\n\n%s", hashHex(target), o.typ, name, memIdent, message)
	data := payload
	if signer != nil {
		data += string(signer.SignSSH([]byte(payload)))
	}
	return mustHash(m.put("tag", []byte(data))), nil
}

// Refs returns a copy of all references.
func (m *MemStore) Refs() (map[string]string, error) {
	m.mu.Lock()
	defer m.mu.Unlock()
	out := make(map[string]string, len(m.refs))
	for k, v := range m.refs {
		out[k] = v
	}
	return out, nil
}

// RawObject returns the type and bytes of an object.
func (m *MemStore) RawObject(id githash.Hash) (string, []byte, error) {
	m.mu.Lock()
	defer m.mu.Unlock()
	o, ok := m.get(hashHex(id))
	if !ok {
		return "", nil, fmt.Errorf("object %s not found", id.String())
	}
	return o.typ, append([]byte{}, o.data...), nil
}

// CommitInfo returns the tree, parents and full message of a commit read
// directly from the object (independent of the Storer read methods' trimming).
func (m *MemStore) CommitInfo(id githash.Hash) (tree githash.Hash, parents []githash.Hash, message string, err error) {
	m.mu.Lock()
	defer m.mu.Unlock()
	c, err := m.getCommit(hashHex(id))
	if err != nil {
		return nil, nil, "", err
	}
	for _, p := range c.parents {
		parents = append(parents, mustHash(p))
	}
	return mustHash(c.tree), parents, c.message, nil
}

var _ gitstore.Storer = (*MemStore)(nil)

type treeEntry = gitstore.TreeEntry

// TreeEntry is gitstore.TreeEntry (exported alias for the checks).
type TreeEntry = gitstore.TreeEntry
