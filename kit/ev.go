//go:build verif

package verifkit

import (
	"log/slog"
	"crypto/sha256"
	"encoding/binary"
	"encoding/json"
	"fmt"
	"os"
	"path/filepath"
	"sort"
	"strconv"
	"strings"
	"sync"
	"testing"
	"time"

	"pgregory.net/rapid"
)

// Session accumulates what one shard of one check explored and writes it to
// the file named by VERIF_OUT when closed. The driver (verif.py) merges the
// shard files into /verif/evidence/<id>.json.
type Session struct {
	Prop    string
	Tier    string
	Seed    uint64
	Shard   int
	NShards int

	// ShrinkTime bounds rapid's minimisation of a failing case (default 20s).
	ShrinkTime time.Duration

	outPath   string
	violDir   string
	known     map[string]KnownFinding
	startedAt time.Time

	mu           sync.Mutex
	evals        int64
	hashes       map[uint64]struct{}
	hashCap      int
	hashOverflow int64
	classes      map[string]int64
	samples      []json.RawMessage
	sampleEvery  int64
	violations   []Violation
	knownHits    map[string]*KnownHit
	notes        []string
	rule         string
	exhaustive   *bool
	extra        map[string]any
	inconclusive int64
}

type Violation struct {
	Campaign string `json:"campaign"`
	Cause    string `json:"cause"`
	Message  string `json:"message"`
	Replay   string `json:"replay"`
	Flaky    bool   `json:"flaky,omitempty"`
}

type KnownFinding struct {
	Status    string          `json:"status"`
	Property  string          `json:"property"`
	ID        string          `json:"id"`
	What      string          `json:"what"`
	Commit    string          `json:"commit,omitempty"`
	Replay    string          `json:"replay,omitempty"`
	Signature json.RawMessage `json:"signature,omitempty"`
}

type KnownHit struct {
	ID     string          `json:"id"`
	Count  int64           `json:"count"`
	Sample json.RawMessage `json:"sample,omitempty"`
}

// ReplayFile is the on-disk format of a saved case.
type ReplayFile struct {
	Property string          `json:"property"`
	Kind     string          `json:"kind"`
	Cause    string          `json:"cause,omitempty"`
	Message  string          `json:"message,omitempty"`
	Case     json.RawMessage `json:"case"`
}

func envInt(name string, def int64) int64 {
	v := os.Getenv(name)
	if v == "" {
		return def
	}
	n, err := strconv.ParseInt(v, 10, 64)
	if err != nil {
		return def
	}
	return n
}

// Open creates the session for property prop from the VERIF_* environment.
func Open(t *testing.T, prop string) *Session {
	t.Helper()
	if os.Getenv("VERIF_DEBUG") != "" {
		slog.SetLogLoggerLevel(slog.LevelDebug) // gittuf narrates its decisions at debug level
	}
	s := &Session{
		Prop:        prop,
		Tier:        os.Getenv("VERIF_TIER"),
		Seed:        uint64(envInt("VERIF_SEED", 1)),
		Shard:       int(envInt("VERIF_SHARD", 0)),
		NShards:     int(envInt("VERIF_NSHARDS", 1)),
		outPath:     os.Getenv("VERIF_OUT"),
		violDir:     os.Getenv("VERIF_VIOLDIR"),
		known:       map[string]KnownFinding{},
		startedAt:   time.Now(),
		hashes:      map[uint64]struct{}{},
		hashCap:     1 << 20,
		classes:     map[string]int64{},
		knownHits:   map[string]*KnownHit{},
		extra:       map[string]any{},
		sampleEvery: 1,
	}
	if s.Tier == "" {
		s.Tier = "quick"
	}
	if s.NShards < 1 {
		s.NShards = 1
	}
	if s.violDir == "" {
		s.violDir = t.TempDir()
	}
	if p := os.Getenv("VERIF_KNOWN"); p != "" {
		if b, err := os.ReadFile(p); err == nil {
			var all []KnownFinding
			if err := json.Unmarshal(b, &all); err != nil {
				t.Fatalf("cannot parse %s: %v", p, err)
			}
			for _, k := range all {
				if k.Property == prop {
					s.known[k.ID] = k
				}
			}
		}
	}
	t.Cleanup(func() { s.Close(t) })
	return s
}

// Scratch returns a session that only counts (no output file, no known
// findings); used by native fuzz targets, which run the property functions
// outside the driver's shard protocol.
func Scratch(prop string) *Session {
	return &Session{Prop: prop, Tier: "thorough", NShards: 1, known: map[string]KnownFinding{}, startedAt: time.Now(),
		hashes: map[uint64]struct{}{}, hashCap: 1 << 12, classes: map[string]int64{}, knownHits: map[string]*KnownHit{}, extra: map[string]any{}, sampleEvery: 1}
}

// IsKnown reports whether finding id is listed with status "known".
func (s *Session) IsKnown(id string) bool {
	k, ok := s.known[id]
	return ok && k.Status == "known"
}

func (s *Session) Thorough() bool { return s.Tier == "thorough" }

// Budget returns this shard's share of a total case budget.
func (s *Session) Budget(quick, thorough int) int {
	total := quick
	if s.Thorough() {
		total = thorough
	}
	if v := envInt("VERIF_SCALE_PCT", 100); v != 100 {
		total = int(int64(total) * v / 100)
	}
	n := (total + s.NShards - 1) / s.NShards
	if n < 1 {
		n = 1
	}
	return n
}

// Mine reports whether enumeration index i belongs to this shard.
func (s *Session) Mine(i int) bool { return i%s.NShards == s.Shard }

// SubSeed derives a non-zero seed for a named campaign of this shard.
func (s *Session) SubSeed(name string) uint64 {
	h := sha256.Sum256([]byte(fmt.Sprintf("%s/%s/%d/%d", s.Prop, name, s.Seed, s.Shard)))
	v := binary.LittleEndian.Uint64(h[:8]) >> 1
	if v == 0 {
		v = 1
	}
	return v
}

func (s *Session) SetRule(rule string)      { s.mu.Lock(); s.rule = rule; s.mu.Unlock() }
func (s *Session) SetExhaustive(b bool)     { s.mu.Lock(); s.exhaustive = &b; s.mu.Unlock() }
func (s *Session) SetExtra(k string, v any) { s.mu.Lock(); s.extra[k] = v; s.mu.Unlock() }
func (s *Session) Note(f string, a ...any) {
	s.mu.Lock()
	s.notes = append(s.notes, fmt.Sprintf(f, a...))
	s.mu.Unlock()
}
func (s *Session) Inconclusive() { s.mu.Lock(); s.inconclusive++; s.mu.Unlock() }
func (s *Session) Class(classes ...string) {
	s.mu.Lock()
	for _, c := range classes {
		s.classes[c]++
	}
	s.mu.Unlock()
}
func (s *Session) ClassN(c string, n int64) { s.mu.Lock(); s.classes[c] += n; s.mu.Unlock() }

func canon(c any) []byte {
	switch v := c.(type) {
	case []byte:
		return v
	case json.RawMessage:
		return v
	case string:
		return []byte(v)
	}
	b, err := json.Marshal(c)
	if err != nil {
		panic(fmt.Sprintf("verifkit: case is not JSON-serialisable: %v", err))
	}
	return b
}

// Observe counts one evaluated case. nontrivial is the property's stated rule;
// distinctness is by SHA-256 of the canonical JSON of the case.
func (s *Session) Observe(c any, nontrivial bool, classes ...string) {
	var b []byte
	if nontrivial {
		b = canon(c)
	}
	s.mu.Lock()
	defer s.mu.Unlock()
	s.evals++
	for _, cl := range classes {
		s.classes[cl]++
	}
	if !nontrivial {
		s.classes["trivial"]++
		return
	}
	h := sha256.Sum256(b)
	k := binary.LittleEndian.Uint64(h[:8])
	if _, seen := s.hashes[k]; !seen {
		if len(s.hashes) < s.hashCap {
			s.hashes[k] = struct{}{}
		} else {
			s.hashOverflow++
		}
		// keep a few well spread samples: 1st, 2nd, 4th, 8th ... distinct non-trivial case
		n := int64(len(s.hashes)) + s.hashOverflow
		if n == s.sampleEvery && len(s.samples) < 8 && len(b) < 6000 {
			s.samples = append(s.samples, json.RawMessage(b))
			s.sampleEvery *= 4
		} else if n == s.sampleEvery {
			s.sampleEvery *= 4
		}
	}
}

// ObserveKey is Observe for checks whose case is cheaply identified by a
// string key (the sample is written only occasionally through sample()).
func (s *Session) ObserveKey(key string, nontrivial bool, sample func() any, classes ...string) {
	s.mu.Lock()
	s.evals++
	for _, cl := range classes {
		s.classes[cl]++
	}
	if !nontrivial {
		s.classes["trivial"]++
		s.mu.Unlock()
		return
	}
	h := sha256.Sum256([]byte(key))
	k := binary.LittleEndian.Uint64(h[:8])
	takeSample := false
	if _, seen := s.hashes[k]; !seen {
		if len(s.hashes) < s.hashCap {
			s.hashes[k] = struct{}{}
		} else {
			s.hashOverflow++
		}
		n := int64(len(s.hashes)) + s.hashOverflow
		if n == s.sampleEvery {
			takeSample = len(s.samples) < 8
			s.sampleEvery *= 4
		}
	}
	s.mu.Unlock()
	if takeSample && sample != nil {
		b := canon(sample())
		if len(b) < 6000 {
			s.mu.Lock()
			s.samples = append(s.samples, json.RawMessage(b))
			s.mu.Unlock()
		}
	}
}

// KnownHit counts a failing case whose classified cause is a listed known
// finding; the search continues.
func (s *Session) KnownHit(id string, c any) {
	s.mu.Lock()
	defer s.mu.Unlock()
	h := s.knownHits[id]
	if h == nil {
		h = &KnownHit{ID: id}
		s.knownHits[id] = h
	}
	h.Count++
	if h.Sample == nil {
		b := canon(c)
		if len(b) < 8000 {
			h.Sample = json.RawMessage(b)
		}
	}
}

// SaveReplay writes (overwriting) the replay file of a campaign and returns its path.
func (s *Session) SaveReplay(campaign, kind, cause, msg string, c any) string {
	rf := ReplayFile{Property: s.Prop, Kind: kind, Cause: cause, Message: msg, Case: json.RawMessage(canon(c))}
	b, _ := json.MarshalIndent(rf, "", " ")
	_ = os.MkdirAll(s.violDir, 0o755)
	p := filepath.Join(s.violDir, fmt.Sprintf("%s-%s-seed%d-shard%d-%s.json", s.Prop, s.Tier, s.Seed, s.Shard, sanitize(campaign)))
	_ = os.WriteFile(p, b, 0o644)
	return p
}

func sanitize(s string) string {
	return strings.Map(func(r rune) rune {
		if (r >= 'a' && r <= 'z') || (r >= 'A' && r <= 'Z') || (r >= '0' && r <= '9') || r == '-' || r == '_' {
			return r
		}
		return '_'
	}, s)
}

// AddViolation records a violation of a campaign (one per campaign is kept: the last).
func (s *Session) AddViolation(v Violation) {
	s.mu.Lock()
	defer s.mu.Unlock()
	for i := range s.violations {
		if s.violations[i].Campaign == v.Campaign {
			s.violations[i] = v
			return
		}
	}
	s.violations = append(s.violations, v)
}

// Failure is what a property function panics with (through Failf) to signal a
// violation together with the case and its classified cause.
type Failure struct {
	Kind  string
	Cause string
	Msg   string
	Case  any
}

func (f *Failure) Error() string { return f.Cause + ": " + f.Msg }

// collectTB is the rapid.TB handed to rapid.Check so that a failing campaign
// does not abort the Go test: the session records it instead.
type collectTB struct {
	name   string
	mu     sync.Mutex
	failed bool
	logs   []string
}

func (c *collectTB) Helper()      {}
func (c *collectTB) Name() string { return c.name }
func (c *collectTB) Logf(f string, a ...any) {
	c.mu.Lock()
	if len(c.logs) < 200 {
		c.logs = append(c.logs, fmt.Sprintf(f, a...))
	}
	c.mu.Unlock()
}
func (c *collectTB) Log(a ...any)              { c.Logf("%s", fmt.Sprint(a...)) }
func (c *collectTB) Skipf(f string, a ...any)  { panic("skip outside property") }
func (c *collectTB) Skip(a ...any)             { panic("skip outside property") }
func (c *collectTB) SkipNow()                  { panic("skip outside property") }
func (c *collectTB) Errorf(f string, a ...any) { c.Logf(f, a...); c.Fail() }
func (c *collectTB) Error(a ...any)            { c.Log(a...); c.Fail() }
func (c *collectTB) Fatalf(f string, a ...any) { c.Logf(f, a...); c.Fail() }
func (c *collectTB) Fatal(a ...any)            { c.Log(a...); c.Fail() }
func (c *collectTB) FailNow()                  { c.Fail() }
func (c *collectTB) Fail()                     { c.mu.Lock(); c.failed = true; c.mu.Unlock() }
func (c *collectTB) Failed() bool              { c.mu.Lock(); defer c.mu.Unlock(); return c.failed }

var rapidMu sync.Mutex

// Campaign runs one rapid campaign of n cases. gen draws a case, run evaluates
// it and returns nil or a *Failure. Randomness only comes from gen's draws, so
// the saved case replays without rapid. Returns true if no violation was found.
func Campaign[C any](s *Session, t *testing.T, name, kind string, n int, gen func(*rapid.T) C, run func(C) *Failure) bool {
	t.Helper()
	if n <= 0 {
		return true
	}
	rapidMu.Lock()
	defer rapidMu.Unlock()
	mustSetFlag(t, "rapid.checks", strconv.Itoa(n))
	mustSetFlag(t, "rapid.seed", strconv.FormatUint(s.SubSeed(name), 10))
	mustSetFlag(t, "rapid.nofailfile", "true")
	st := s.ShrinkTime
	if st == 0 {
		st = 20 * time.Second
	}
	mustSetFlag(t, "rapid.shrinktime", st.String())
	tb := &collectTB{name: s.Prop + "/" + name}
	var last *Failure
	var lastPath string
	rapid.Check(tb, func(rt *rapid.T) {
		c := gen(rt)
		var f *Failure
		func() {
			defer func() {
				if r := recover(); r != nil {
					if isRapidInternal(r) {
						panic(r)
					}
					f = &Failure{Kind: kind, Cause: "panic", Msg: fmt.Sprintf("panic: %v", r), Case: c}
				}
			}()
			f = run(c)
		}()
		if f != nil {
			if f.Case == nil {
				f.Case = c
			}
			if f.Kind == "" {
				f.Kind = kind
			}
			last = f
			lastPath = s.SaveReplay(name, f.Kind, f.Cause, f.Msg, f.Case)
			rt.Fatalf("%s", f.Error())
		}
	})
	if !tb.Failed() {
		return true
	}
	v := Violation{Campaign: name}
	if last != nil {
		v.Cause, v.Message, v.Replay = last.Cause, last.Msg, lastPath
	} else {
		v.Cause = "harness"
		v.Message = "rapid reported a failure without a recorded case: " + strings.Join(tb.logs, " | ")
	}
	for _, l := range tb.logs {
		if strings.Contains(l, "flaky test") {
			v.Flaky = true
		}
		if strings.Contains(l, "only generated") {
			v.Cause = "harness"
			v.Message = l
		}
	}
	s.AddViolation(v)
	t.Logf("campaign %s failed: %s (%s) replay=%s", name, v.Cause, v.Message, v.Replay)
	return false
}

// Enumerate evaluates run on every case produced by next (which returns false
// when the space is exhausted); only indices owned by this shard are run.
func Enumerate[C any](s *Session, t *testing.T, name, kind string, next func(i int) (C, bool), run func(C) *Failure) bool {
	t.Helper()
	for i := 0; ; i++ {
		c, ok := next(i)
		if !ok {
			return true
		}
		if !s.Mine(i) {
			continue
		}
		f := SafeRun(kind, c, run)
		if f != nil {
			p := s.SaveReplay(name, f.Kind, f.Cause, f.Msg, f.Case)
			s.AddViolation(Violation{Campaign: name, Cause: f.Cause, Message: f.Msg, Replay: p})
			t.Logf("enumeration %s failed at index %d: %s replay=%s", name, i, f.Error(), p)
			return false
		}
	}
}

// SafeRun evaluates run(c) converting a panic into a Failure.
func SafeRun[C any](kind string, c C, run func(C) *Failure) (f *Failure) {
	defer func() {
		if r := recover(); r != nil {
			f = &Failure{Kind: kind, Cause: "panic", Msg: fmt.Sprintf("panic: %v", r), Case: c}
		}
	}()
	f = run(c)
	if f != nil {
		if f.Case == nil {
			f.Case = c
		}
		if f.Kind == "" {
			f.Kind = kind
		}
	}
	return f
}

func isRapidInternal(r any) bool {
	// rapid signals invalid data / stop-test through its own panic values; let
	// them through untouched.
	tn := fmt.Sprintf("%T", r)
	return strings.HasPrefix(tn, "rapid.") || strings.HasPrefix(tn, "*rapid.")
}

func mustSetFlag(t *testing.T, name, val string) {
	t.Helper()
	if err := flagSet(name, val); err != nil {
		t.Fatalf("cannot set -%s: %v", name, err)
	}
}

// ReplayPath returns the replay file requested through VERIF_REPLAY ("" if none).
func ReplayPath() string { return os.Getenv("VERIF_REPLAY") }

// LoadReplay reads a replay file.
func LoadReplay(path string) (*ReplayFile, error) {
	b, err := os.ReadFile(path)
	if err != nil {
		return nil, err
	}
	rf := &ReplayFile{}
	if err := json.Unmarshal(b, rf); err != nil {
		return nil, err
	}
	return rf, nil
}

// ReplayResult is written to VERIF_OUT in replay mode.
type ReplayResult struct {
	Property string `json:"property"`
	Replay   string `json:"replay"`
	Violated bool   `json:"violated"`
	Cause    string `json:"cause,omitempty"`
	Message  string `json:"message,omitempty"`
}

// DoReplay decodes the case of rf into C and evaluates it.
func DoReplay[C any](s *Session, t *testing.T, rf *ReplayFile, run func(C) *Failure) {
	t.Helper()
	var c C
	if err := json.Unmarshal(rf.Case, &c); err != nil {
		t.Fatalf("replay file does not decode for kind %s: %v", rf.Kind, err)
	}
	f := SafeRun(rf.Kind, c, run)
	res := ReplayResult{Property: s.Prop, Replay: ReplayPath()}
	if f != nil {
		res.Violated, res.Cause, res.Message = true, f.Cause, f.Msg
	}
	s.mu.Lock()
	if f == nil {
		// a case the check classified as a listed known finding still fails the property
		for id := range s.knownHits {
			res.Violated, res.Cause, res.Message = true, "known:"+id, "classified as listed known finding "+id
		}
	}
	s.extra["replay_result"] = res
	s.mu.Unlock()
}

type shardOut struct {
	Property     string               `json:"property"`
	Tier         string               `json:"tier"`
	Seed         uint64               `json:"seed"`
	Shard        int                  `json:"shard"`
	NShards      int                  `json:"nshards"`
	Evaluations  int64                `json:"evaluations"`
	Hashes       []string             `json:"hashes"`
	HashOverflow int64                `json:"hash_overflow"`
	Classes      map[string]int64     `json:"classes"`
	Samples      []json.RawMessage    `json:"samples"`
	Violations   []Violation          `json:"violations"`
	KnownHits    map[string]*KnownHit `json:"known_hits"`
	Notes        []string             `json:"notes"`
	Rule         string               `json:"rule"`
	Exhaustive   *bool                `json:"exhaustive,omitempty"`
	Extra        map[string]any       `json:"extra"`
	Inconclusive int64                `json:"inconclusive"`
	WallS        float64              `json:"wall_s"`
	TestFailed   bool                 `json:"test_failed"`
}

// Close writes the shard file.
func (s *Session) Close(t *testing.T) {
	s.mu.Lock()
	defer s.mu.Unlock()
	if s.outPath == "" {
		return
	}
	out := shardOut{
		Property: s.Prop, Tier: s.Tier, Seed: s.Seed, Shard: s.Shard, NShards: s.NShards,
		Evaluations: s.evals, HashOverflow: s.hashOverflow, Classes: s.classes, Samples: s.samples,
		Violations: s.violations, KnownHits: s.knownHits, Notes: s.notes, Rule: s.rule,
		Exhaustive: s.exhaustive, Extra: s.extra, Inconclusive: s.inconclusive,
		WallS: time.Since(s.startedAt).Seconds(), TestFailed: t.Failed(),
	}
	out.Hashes = make([]string, 0, len(s.hashes))
	for h := range s.hashes {
		out.Hashes = append(out.Hashes, strconv.FormatUint(h, 36))
	}
	sort.Strings(out.Hashes)
	b, err := json.Marshal(out)
	if err != nil {
		t.Errorf("cannot encode shard output: %v", err)
		return
	}
	tmp := s.outPath + ".tmp"
	if err := os.WriteFile(tmp, b, 0o644); err != nil {
		t.Errorf("cannot write shard output: %v", err)
		return
	}
	_ = os.Rename(tmp, s.outPath)
}

// Replay returns the decoded replay file when the driver asked for a replay,
// nil otherwise.
func Replay(t *testing.T) *ReplayFile {
	t.Helper()
	p := ReplayPath()
	if p == "" {
		return nil
	}
	rf, err := LoadReplay(p)
	if err != nil {
		t.Fatalf("cannot load replay file %s: %v", p, err)
	}
	return rf
}
