//go:build verif

package verifkit

import (
	"errors"
	"fmt"
	"strconv"
	"strings"

	"github.com/gittuf/gittuf/pkg/githash"
	"github.com/gittuf/gittuf/pkg/gitstore"
)

const RSLRef = "refs/gittuf/reference-state-log"

// RawEntry is an RSL entry as read by the harness's own reader (never through
// pkg/rsl).
type RawEntry struct {
	ID      string
	Parents []string
	Text    string
	Kind    string // reference, annotation, propagation
	Ref     string
	Target  string
	Up      string
	UpEntry string
	IDs     []string
	Skip    bool
	Number  uint64
	HasNum  bool
}

// ParseRawEntry is the harness's own small parser of the documented entry
// grammar: header line, blank line, "key: value" lines; an annotation's
// optional message block ends the field list.
func ParseRawEntry(text string) (*RawEntry, error) {
	text = strings.TrimRight(text, "\n")
	lines := strings.Split(text, "\n")
	if len(lines) < 3 || strings.Trim(lines[1], " \t\r") != "" {
		return nil, fmt.Errorf("not an RSL entry (no header/blank line): %q", text)
	}
	e := &RawEntry{Text: text}
	switch lines[0] {
	case "RSL Reference Entry":
		e.Kind = "reference"
	case "RSL Annotation Entry":
		e.Kind = "annotation"
	case "RSL Propagation Entry":
		e.Kind = "propagation"
	default:
		return nil, fmt.Errorf("unknown entry header %q", lines[0])
	}
	seen := map[string]int{}
	for _, line := range lines[2:] {
		line = strings.Trim(line, " \t\r")
		if line == "-----BEGIN MESSAGE-----" {
			break
		}
		k, v, ok := strings.Cut(line, ":")
		if !ok {
			return nil, fmt.Errorf("line without colon in entry: %q", line)
		}
		k, v = strings.Trim(k, " \t\r"), strings.Trim(v, " \t\r")
		seen[k]++
		switch k {
		case "ref":
			e.Ref = v
		case "targetID":
			e.Target = v
		case "upstreamRepository":
			e.Up = v
		case "upstreamEntryID":
			e.UpEntry = v
		case "entryID":
			e.IDs = append(e.IDs, v)
		case "skip":
			if v != "true" && v != "false" {
				return nil, fmt.Errorf("bad skip value %q", v)
			}
			e.Skip = v == "true"
		case "number":
			n, err := strconv.ParseUint(v, 10, 64)
			if err != nil {
				return nil, fmt.Errorf("bad number %q", v)
			}
			e.Number, e.HasNum = n, true
		}
	}
	for k, n := range seen {
		if n > 1 && k != "entryID" {
			return nil, fmt.Errorf("key %s repeated", k)
		}
	}
	need := map[string][]string{"reference": {"ref", "targetID"}, "annotation": {"entryID", "skip"}, "propagation": {"ref", "targetID", "upstreamRepository", "upstreamEntryID"}}
	for _, k := range need[e.Kind] {
		if seen[k] == 0 {
			return nil, fmt.Errorf("%s entry without %s", e.Kind, k)
		}
	}
	return e, nil
}

// WalkChain returns the first-parent chain below ref, oldest first, read with
// CommitInfo only. A commit with several parents is reported in the entry's
// Parents; the walk follows the first.
func WalkChain(st RawStore, ref string) ([]*RawEntry, error) {
	tip, err := st.GetReference(ref)
	if err != nil {
		if errors.Is(err, gitstore.ErrReferenceNotFound) {
			return nil, nil
		}
		return nil, err
	}
	var rev []*RawEntry
	cur := tip
	for guard := 0; guard < 1_000_000; guard++ {
		_, parents, msg, err := st.CommitInfo(cur)
		if err != nil {
			return nil, fmt.Errorf("chain reaches %s which is not a readable commit: %w", cur, err)
		}
		re, perr := ParseRawEntry(msg)
		if perr != nil {
			re = &RawEntry{Text: msg, Kind: "invalid:" + perr.Error()}
		}
		re.ID = cur.String()
		for _, p := range parents {
			re.Parents = append(re.Parents, p.String())
		}
		rev = append(rev, re)
		if len(parents) == 0 {
			break
		}
		cur = parents[0]
	}
	out := make([]*RawEntry, 0, len(rev))
	for i := len(rev) - 1; i >= 0; i-- {
		out = append(out, rev[i])
	}
	return out, nil
}

// CheckChain is the C03/C16/C17 invariant: every entry parses, every entry but
// the first has exactly one parent, numbered entries are consecutive, the first
// numbered entry after unnumbered ones is 1 and no unnumbered entry follows a
// numbered one. It returns "" or a description of the first defect.
func CheckChain(chain []*RawEntry) string {
	for i, e := range chain {
		if strings.HasPrefix(e.Kind, "invalid:") {
			return fmt.Sprintf("entry %d (%s) is not a well-formed RSL entry: %s", i, e.ID, e.Kind)
		}
		if i == 0 {
			if len(e.Parents) != 0 {
				return fmt.Sprintf("first entry %s has parents", e.ID)
			}
		} else {
			if len(e.Parents) != 1 {
				return fmt.Sprintf("entry %d (%s) has %d parents", i, e.ID, len(e.Parents))
			}
			if e.Parents[0] != chain[i-1].ID {
				return fmt.Sprintf("entry %d (%s) is not parented on the previous entry", i, e.ID)
			}
		}
		var prev uint64
		if i > 0 {
			prev = chain[i-1].Number
		}
		switch {
		case e.Number == 0 && prev != 0:
			return fmt.Sprintf("entry %d (%s) is unnumbered but follows entry numbered %d", i, e.ID, prev)
		case e.Number != 0 && e.Number != prev+1:
			return fmt.Sprintf("entry %d (%s) is numbered %d but its parent is numbered %d", i, e.ID, e.Number, prev)
		}
	}
	return ""
}

// CheckAnnotationTargets verifies that every id an annotation names is an
// earlier entry of the same chain. It returns "" or the first defect.
func CheckAnnotationTargets(chain []*RawEntry) string {
	pos := map[string]int{}
	for i, e := range chain {
		if e.Kind == "annotation" {
			for _, id := range e.IDs {
				if _, ok := pos[id]; !ok {
					return fmt.Sprintf("annotation %d (%s) names %s which is not an earlier entry of the log", i, e.ID, id)
				}
			}
		}
		pos[e.ID] = i
	}
	return ""
}

// ChainIDs returns the ids of a chain.
func ChainIDs(chain []*RawEntry) []string {
	out := make([]string, 0, len(chain))
	for _, e := range chain {
		out = append(out, e.ID)
	}
	return out
}

// IsPrefix reports whether a is a prefix of b.
func IsPrefix(a, b []string) bool {
	if len(a) > len(b) {
		return false
	}
	for i := range a {
		if a[i] != b[i] {
			return false
		}
	}
	return true
}

// HashOf parses a hex id.
func HashOf(s string) githash.Hash { return mustHash(s) }
