//go:build verif

// Package verifkit is the harness library for the /verif checks. It is never
// committed to /repo: the driver injects it with -overlay at build time.
package verifkit
