//go:build verif

package verifkit

import "flag"

func flagSet(name, val string) error { return flag.Set(name, val) }
