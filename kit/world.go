//go:build verif

package verifkit

import (
	"context"
	"encoding/base64"
	"encoding/json"
	"fmt"
	"path"
	"sort"
	"strings"

	"github.com/gittuf/gittuf/internal/attestations"
	"github.com/gittuf/gittuf/internal/policy"
	"github.com/gittuf/gittuf/internal/signerverifier/dsse"
	sslibdsse "github.com/gittuf/gittuf/internal/third_party/go-securesystemslib/dsse"
	"github.com/gittuf/gittuf/pkg/githash"
	"github.com/gittuf/gittuf/pkg/gitstore"
	"github.com/gittuf/gittuf/pkg/rsl"
	ita "github.com/in-toto/attestation/go/v1"
	"google.golang.org/protobuf/types/known/structpb"
)

// ---------------------------------------------------------------------------
// Abstract worlds: policies + an ordered log of events (plain data)
// ---------------------------------------------------------------------------

// Change identifies a change to a reference abstractly: the reference, the
// event whose commit is the prior state (-1: none/zero) and the content index
// of the resulting tree.
type Change struct {
	Ref  string `json:"ref"`
	From int    `json:"from"` // event index of the push/prop that produced the prior commit, -1 = zero
	To   int    `json:"to"`   // tree content index
}

// AttItem is one attestation stored in the attestations tree.
type AttItem struct {
	Kind      string   `json:"kind"` // "auth" (v0.2 predicate), "auth01" (v0.1), "app" (code review approval)
	Stmt      Change   `json:"stmt"` // what the signed statement names
	Path      Change   `json:"path"` // where it is filed
	Signers   []int    `json:"signers"`
	App       string   `json:"app,omitempty"`
	Approvers []string `json:"approvers,omitempty"`
	Dismissed []string `json:"dismissed,omitempty"`
}

// Event is one step of a history.
type Event struct {
	Kind    string    `json:"k"` // policy | push | prop | approve | annotate | other
	Policy  int       `json:"policy,omitempty"`
	Ref     string    `json:"ref,omitempty"`
	Tree    int       `json:"tree,omitempty"`
	Signer  int       `json:"signer"` // key index signing the RSL entry, -1 = unsigned
	CSigner int       `json:"csigner,omitempty"`
	Force   bool      `json:"force,omitempty"` // the commit does not descend from the ref's previous target
	Base    string    `json:"base,omitempty"`  // push: parent is the current commit of this other ref (branching off)
	FF      string    `json:"ff,omitempty"`    // push: the entry's target is the current commit of this other ref (fast-forward), no new commit
	Merge   string    `json:"merge,omitempty"` // push: the new commit has a second parent, the current commit of this other ref
	Items   []AttItem `json:"items,omitempty"`
	Targets []int     `json:"targets,omitempty"` // annotate: indices of earlier events
	Skip    bool      `json:"skip,omitempty"`
	// approve items may say "the ref's current state" for From: -2 is resolved
	// when the world is normalised (see Normalise)
}

// World is a complete scenario.
type World struct {
	Policies []PolicySpec `json:"policies"`
	Events   []Event      `json:"events"`
}

// Normalise resolves From == -2 ("current target of the ref") in attestation
// items to the concrete event index.
func (w *World) Normalise() {
	last := map[string]int{}
	res := func(c *Change) {
		if c.From == -2 {
			if j, ok := last[c.Ref]; ok {
				c.From = j
			} else {
				c.From = -1
			}
		}
	}
	for i := range w.Events {
		e := &w.Events[i]
		switch e.Kind {
		case "push", "prop":
			last[e.Ref] = i
		case "approve":
			for k := range e.Items {
				res(&e.Items[k].Stmt)
				res(&e.Items[k].Path)
			}
		}
	}
}

// Built is what materialising a world produced.
type Built struct {
	Store    RawStore
	Entry    []string // main RSL entry id per event ("" if none)
	Commit   []string // commit id per push/prop event
	TreeIDs  map[int]string
	attState []AttItem
	last     map[string]string // ref -> latest commit pushed by the world
}

// TreeFor returns (creating it if needed) the tree with content index i.
func (b *Built) TreeFor(i int) (githash.Hash, error) {
	if id, ok := b.TreeIDs[i]; ok {
		return mustHash(id), nil
	}
	var entries []gitstore.TreeEntry
	add := func(p, content string) error {
		blob, err := b.Store.WriteBlob([]byte(content))
		if err != nil {
			return err
		}
		entries = append(entries, gitstore.TreeEntry{Path: p, ID: blob})
		return nil
	}
	if i < 100 {
		if err := add("f", fmt.Sprintf("content-%d\n", i)); err != nil {
			return nil, err
		}
	} else {
		// trees 100+a+5b: "f" constant, src/a in version a (absent if 0), docs/x in version b
		a, d := (i-100)%5, ((i-100)/5)%5
		if err := add("f", "base\n"); err != nil {
			return nil, err
		}
		if a > 0 {
			if err := add("src/a", fmt.Sprintf("src-a-%d\n", a)); err != nil {
				return nil, err
			}
		}
		if d > 0 {
			if err := add("docs/x", fmt.Sprintf("docs-x-%d\n", d)); err != nil {
				return nil, err
			}
		}
	}
	tree, err := b.Store.WriteTree(entries)
	if err != nil {
		return nil, err
	}
	b.TreeIDs[i] = tree.String()
	return tree, nil
}

// Fork returns an independent copy of the build on a snapshot of a MemStore.
func (b *Built) Fork() *Built {
	ms, ok := b.Store.(*MemStore)
	if !ok {
		panic("Fork needs a MemStore")
	}
	c := &Built{Store: ms.Snapshot(), Entry: append([]string{}, b.Entry...), Commit: append([]string{}, b.Commit...), TreeIDs: map[int]string{}, last: map[string]string{}}
	for k, v := range b.TreeIDs {
		c.TreeIDs[k] = v
	}
	for k, v := range b.last {
		c.last[k] = v
	}
	c.attState = append([]AttItem{}, b.attState...)
	return c
}

// Extend grows the per-event slices so that events appended to the world after
// the build started can be applied.
func (b *Built) Extend(n int) {
	for len(b.Entry) < n {
		b.Entry = append(b.Entry, "")
		b.Commit = append(b.Commit, "")
	}
}

func (b *Built) changeIDs(c Change) (ref, from, to string, err error) {
	from = strings.Repeat("0", 40)
	if c.From >= 0 {
		if c.From >= len(b.Commit) || b.Commit[c.From] == "" {
			return "", "", "", fmt.Errorf("change refers to event %d which produced no commit", c.From)
		}
		from = b.Commit[c.From]
	}
	t, err := b.TreeFor(c.To)
	if err != nil {
		return "", "", "", err
	}
	return c.Ref, from, t.String(), nil
}

func statementFor(kind, ref, from, to string, approvers, dismissed []string) (*ita.Statement, error) {
	switch kind {
	case "auth":
		return attestations.NewReferenceAuthorizationForCommit(ref, from, to)
	case "auth01":
		pred, err := structpb.NewStruct(map[string]any{"targetRef": ref, "fromRevisionID": from, "targetTreeID": to})
		if err != nil {
			return nil, err
		}
		return &ita.Statement{Type: ita.StatementTypeUri, Subject: []*ita.ResourceDescriptor{{Digest: map[string]string{"gitTree": to}}},
			PredicateType: "https://gittuf.dev/reference-authorization/v0.1", Predicate: pred}, nil
	case "app":
		if len(approvers) == 0 && len(dismissed) == 0 {
			approvers = []string{"nobody"}
		}
		return attestations.NewGitHubPullRequestApprovalAttestation(ref, from, to, approvers, dismissed)
	}
	return nil, fmt.Errorf("unknown attestation kind %q", kind)
}

// writeAttestations writes the cumulative attestation items as a commit on the
// attestations ref (raw tree, i.e. without the setters' validation) and records
// its RSL entry.
func (b *Built) writeAttestations() (string, error) {
	entries := []gitstore.TreeEntry{}
	seen := map[string]bool{}
	for _, it := range b.attState {
		sref, sfrom, sto, err := b.changeIDs(it.Stmt)
		if err != nil {
			return "", err
		}
		pref, pfrom, pto, err := b.changeIDs(it.Path)
		if err != nil {
			return "", err
		}
		stmt, err := statementFor(it.Kind, sref, sfrom, sto, it.Approvers, it.Dismissed)
		if err != nil {
			return "", err
		}
		env, err := dsse.CreateEnvelope(stmt)
		if err != nil {
			return "", err
		}
		for _, k := range it.Signers {
			if env, err = dsse.SignEnvelope(context.Background(), env, Key(k).DSSE()); err != nil {
				return "", err
			}
		}
		envBytes, err := json.Marshal(env)
		if err != nil {
			return "", err
		}
		blob, err := b.Store.WriteBlob(envBytes)
		if err != nil {
			return "", err
		}
		var p string
		if it.Kind == "app" {
			p = path.Join("code-review-approvals", attestations.GitHubPullRequestApprovalAttestationPath(pref, pfrom, pto), base64.URLEncoding.EncodeToString([]byte(it.App)))
		} else {
			p = path.Join("reference-authorizations", attestations.ReferenceAuthorizationPath(pref, pfrom, pto))
		}
		if seen[p] {
			// a later item filed at the same path replaces the earlier one
			for i := range entries {
				if entries[i].Path == p {
					entries[i].ID = blob
				}
			}
			continue
		}
		seen[p] = true
		entries = append(entries, gitstore.TreeEntry{Path: p, ID: blob})
	}
	tree, err := b.Store.WriteTree(entries)
	if err != nil {
		return "", err
	}
	commit, err := b.Store.Commit(tree, attestations.Ref, "attestations\n", false)
	if err != nil {
		return "", err
	}
	if err := rsl.NewReferenceEntry(attestations.Ref, commit).Commit(b.Store, false); err != nil {
		return "", err
	}
	tip, err := b.Store.GetReference(rsl.Ref)
	if err != nil {
		return "", err
	}
	return tip.String(), nil
}

// BuildWorld materialises the world on st through gittuf's own write paths
// (State.Commit, policy.Apply, entry Commit/CommitUsingSpecificKey) and raw
// writes where the point is to store what the setters refuse.
func BuildWorld(st RawStore, w *World) (*Built, error) {
	b := NewBuilt(st, w)
	for i := range w.Events {
		if err := b.ApplyEvent(w, i); err != nil {
			return nil, err
		}
	}
	return b, nil
}

// NewBuilt prepares an empty build of w on st (events are then applied one by
// one with ApplyEvent, so that checks can interleave their own steps).
func NewBuilt(st RawStore, w *World) *Built {
	return &Built{Store: st, Entry: make([]string, len(w.Events)), Commit: make([]string, len(w.Events)), TreeIDs: map[int]string{}, last: map[string]string{}}
}

// ApplyEvent materialises event i of w.
func (b *Built) ApplyEvent(w *World, i int) error {
	if err := b.Apply(w, i, w.Events[i], b.last); err != nil {
		return fmt.Errorf("event %d (%s): %w", i, w.Events[i].Kind, err)
	}
	return nil
}

// Apply materialises one event (exposed so that checks can interleave their own steps).
func (b *Built) Apply(w *World, i int, e Event, lastCommit map[string]string) error {
	st := b.Store
	tipID := func() (string, error) {
		t, err := st.GetReference(rsl.Ref)
		if err != nil {
			return "", err
		}
		return t.String(), nil
	}
	var err error
	switch e.Kind {
	case "policy":
		if err = StageAndApply(st, &w.Policies[e.Policy]); err != nil {
			return err
		}
		b.Entry[i], err = tipID()
	case "rawpolicy":
		// what anyone with push access can do: commit arbitrary metadata to the
		// policy ref and record it, without Apply's checks
		id, rerr := WritePolicyRaw(st, &w.Policies[e.Policy])
		if rerr != nil {
			return rerr
		}
		b.Entry[i] = id
	case "push", "prop":
		tree, terr := b.TreeFor(e.Tree)
		if terr != nil {
			return terr
		}
		var parents []githash.Hash
		if prev, ok := lastCommit[e.Ref]; ok && !e.Force {
			parents = []githash.Hash{mustHash(prev)}
		}
		if e.Base != "" {
			if prev, ok := lastCommit[e.Base]; ok {
				parents = []githash.Hash{mustHash(prev)}
			}
		}
		if e.Merge != "" {
			if other, ok := lastCommit[e.Merge]; ok {
				parents = append(parents, mustHash(other))
			}
		}
		var csigner *TestKey
		if e.CSigner > 0 {
			csigner = Key(e.CSigner - 1)
		}
		// the message makes every commit distinct even when trees repeat
		var commit githash.Hash
		var cerr error
		if e.FF != "" {
			other, ok := lastCommit[e.FF]
			if !ok {
				return fmt.Errorf("fast-forward to %s which has no commit", e.FF)
			}
			commit = mustHash(other)
		} else {
			commit, cerr = st.RawCommit(tree, parents, fmt.Sprintf("commit for event %d\n", i), csigner)
			if cerr != nil {
				return cerr
			}
		}
		if err = st.SetReference(e.Ref, commit); err != nil {
			return err
		}
		lastCommit[e.Ref] = commit.String()
		b.Commit[i] = commit.String()
		if e.Kind == "push" {
			ent := rsl.NewReferenceEntry(e.Ref, commit)
			if e.Signer >= 0 {
				err = ent.CommitUsingSpecificKey(st, Key(e.Signer).PEM)
			} else {
				err = ent.Commit(st, false)
			}
		} else {
			ent := rsl.NewPropagationEntry(e.Ref, commit, "https://upstream.example/repo", commit)
			if e.Signer >= 0 {
				err = ent.CommitUsingSpecificKey(st, Key(e.Signer).PEM)
			} else {
				err = ent.Commit(st, false)
			}
		}
		if err != nil {
			return err
		}
		b.Entry[i], err = tipID()
	case "approve":
		b.attState = append(b.attState, e.Items...)
		b.Entry[i], err = b.writeAttestations()
	case "annotate":
		ids := []githash.Hash{}
		for _, t := range e.Targets {
			if b.Entry[t] == "" {
				return fmt.Errorf("annotation names event %d which has no entry", t)
			}
			ids = append(ids, mustHash(b.Entry[t]))
		}
		ent := rsl.NewAnnotationEntry(ids, e.Skip, "")
		if e.Signer >= 0 {
			err = ent.CommitUsingSpecificKey(st, Key(e.Signer).PEM)
		} else {
			err = ent.Commit(st, false)
		}
		if err != nil {
			return err
		}
		b.Entry[i], err = tipID()
	case "other":
		tree, terr := b.TreeFor(e.Tree)
		if terr != nil {
			return terr
		}
		commit, cerr := st.RawCommit(tree, nil, fmt.Sprintf("other %d\n", i), nil)
		if cerr != nil {
			return cerr
		}
		if err = rsl.NewReferenceEntry(e.Ref, commit).Commit(st, false); err != nil {
			return err
		}
		b.Entry[i], err = tipID()
	default:
		return fmt.Errorf("unknown event kind %q", e.Kind)
	}
	return err
}

// WritePolicyRaw commits the spec's envelopes to refs/gittuf/policy and records
// the policy entry, bypassing State.Commit / Apply.
func WritePolicyRaw(st RawStore, spec *PolicySpec) (string, error) {
	md, err := BuildStateMetadata(spec)
	if err != nil {
		return "", err
	}
	mdTree, err := md.WriteTree(st)
	if err != nil {
		return "", err
	}
	root, err := st.WriteTree([]gitstore.TreeEntry{{Path: "metadata", ID: mdTree, Kind: gitstore.KindSubtree}})
	if err != nil {
		return "", err
	}
	commit, err := st.Commit(root, policy.PolicyRef, "policy\n", false)
	if err != nil {
		return "", err
	}
	if err := st.SetReference(policy.PolicyStagingRef, commit); err != nil {
		return "", err
	}
	if err := rsl.NewReferenceEntry(policy.PolicyRef, commit).Commit(st, false); err != nil {
		return "", err
	}
	tip, err := st.GetReference(rsl.Ref)
	if err != nil {
		return "", err
	}
	return tip.String(), nil
}

// ---------------------------------------------------------------------------
// Reference model of verification
// ---------------------------------------------------------------------------

// Verdict is the model's answer.
type Verdict struct {
	Kind string // ACCEPT | REJECT | UNSPECIFIED
	Tip  int    // event index whose commit is the expected tip (ACCEPT)
	Why  string
}

// ModelOptions tune documented-but-debated behaviours.
type ModelOptions struct {
	// PropagationUnverified mirrors the implementation's treatment of
	// propagation entries (never judged). With false the model applies the
	// property as written: a propagation entry is an entry like any other.
	PropagationUnverified bool
}

func patMatch(pattern, p string) bool {
	if strings.HasSuffix(pattern, "*") {
		return strings.HasPrefix(p, strings.TrimSuffix(pattern, "*"))
	}
	return pattern == p
}

// ConsultedRule is a rule reached by the delegation walk for a path.
type ConsultedRule struct {
	Name       string
	Threshold  int
	Principals []PrincipalSpec
}

// Consulted runs the documented walk on a policy spec (only literal, prefix*
// and * patterns are supported, which is all the generators emit).
func Consulted(spec *PolicySpec, p string) []ConsultedRule {
	var out []ConsultedRule
	if spec.Targets == nil {
		return nil
	}
	entered := map[string]bool{}
	var walk func(f *FileSpec)
	walk = func(f *FileSpec) {
		for _, r := range f.Rules {
			m := false
			for _, pat := range r.Patterns {
				if patMatch(pat, p) {
					m = true
				}
			}
			if !m {
				continue
			}
			cr := ConsultedRule{Name: r.Name, Threshold: r.Threshold}
			for _, i := range r.Principals {
				cr.Principals = append(cr.Principals, f.Principals[i])
			}
			out = append(out, cr)
			if sub, ok := spec.Delegated[r.Name]; ok {
				if !entered[r.Name] {
					entered[r.Name] = true
					s := sub
					walk(&s)
				}
				if r.Terminating {
					return
				}
			}
		}
	}
	walk(spec.Targets)
	return out
}

// AllPrincipals lists every principal a policy defines (root, primary and
// delegated rule files), deduplicated by id.
func AllPrincipals(spec *PolicySpec) []PrincipalSpec {
	seen := map[string]bool{}
	var out []PrincipalSpec
	add := func(ps []PrincipalSpec) {
		for _, p := range ps {
			if !seen[p.PID()] {
				seen[p.PID()] = true
				out = append(out, p)
			}
		}
	}
	add(spec.RootPrincipals)
	add(spec.TargetsKeys)
	add(spec.ExtraRootPrins)
	for _, a := range spec.Apps {
		add([]PrincipalSpec{{Keys: []int{a.Key}}})
	}
	if spec.Targets != nil {
		add(spec.Targets.Principals)
	}
	names := make([]string, 0, len(spec.Delegated))
	for n := range spec.Delegated {
		names = append(names, n)
	}
	sort.Strings(names)
	for _, n := range names {
		add(spec.Delegated[n].Principals)
	}
	return out
}

func hasKey(p PrincipalSpec, k int) bool {
	for _, x := range p.Keys {
		if x == k {
			return true
		}
	}
	return false
}

// Model evaluates histories of a world.
type Model struct {
	W    *World
	Opts ModelOptions
}

// prevForRef returns the index of the latest push/prop event for ref before i (-1 if none).
func (m *Model) prevForRef(ref string, i int) int {
	for j := i - 1; j >= 0; j-- {
		e := m.W.Events[j]
		if (e.Kind == "push" || e.Kind == "prop") && e.Ref == ref {
			return j
		}
	}
	return -1
}

// Skipped reports whether any later annotation marks event i as skipped.
func (m *Model) Skipped(i int) bool {
	if m.W.Events[i].Kind != "push" {
		return false // only reference entries can be skipped
	}
	for j := i + 1; j < len(m.W.Events); j++ {
		e := m.W.Events[j]
		if e.Kind == "annotate" && e.Skip {
			for _, t := range e.Targets {
				if t == i {
					return true
				}
			}
		}
	}
	return false
}

// policyAt returns the index (into Policies) in force for event i: the latest policy event before it (-1 none).
func (m *Model) policyAt(i int) int {
	for j := i - 1; j >= 0; j-- {
		if m.W.Events[j].Kind == "policy" || m.W.Events[j].Kind == "rawpolicy" {
			return m.W.Events[j].Policy
		}
	}
	return -1
}

// attestationsAt returns the cumulative items in force for event i.
func (m *Model) attestationsAt(i int) []AttItem {
	var items []AttItem
	for j := 0; j < i; j++ {
		if m.W.Events[j].Kind == "approve" {
			items = append(items, m.W.Events[j].Items...)
		}
	}
	// later items replace earlier ones filed at the same place
	out := []AttItem{}
	for _, it := range items {
		replaced := false
		for k := range out {
			if out[k].Kind == "app" == (it.Kind == "app") && out[k].Path == it.Path && out[k].App == it.App {
				out[k] = it
				replaced = true
			}
		}
		if !replaced {
			out = append(out, it)
		}
	}
	return out
}

// ChangeOf returns the change event i (push/prop) makes.
func (m *Model) ChangeOf(i int) Change {
	e := m.W.Events[i]
	return Change{Ref: e.Ref, From: m.prevForRef(e.Ref, i), To: e.Tree}
}

// Credit describes who is credited for a change under one rule.
type Credit struct {
	IDs         map[string]bool
	Unspecified string // non-empty: a stored attestation makes the outcome unspecified
	MustFail    string // non-empty: a stored attestation makes the implementation fail closed (allowed)
}

// creditFor computes the principals of `prins` credited for change c made by
// entry signer `signer` given attestation items and the policy (for apps).
func (m *Model) creditFor(spec *PolicySpec, prins []PrincipalSpec, c Change, signer int, items []AttItem) Credit {
	cr := Credit{IDs: map[string]bool{}}
	if signer >= 0 {
		for _, p := range prins {
			if hasKey(p, signer) {
				cr.IDs[p.PID()] = true
				break // at most one principal for the entry's own signature
			}
		}
	}
	for _, it := range items {
		if it.Path != c {
			continue // never looked up for this change
		}
		switch it.Kind {
		case "auth", "auth01":
			if it.Stmt != c {
				cr.MustFail = "authorization for another change is filed under this change's path"
				continue
			}
			if len(it.Signers) == 0 {
				// cannot be produced through the API; the implementation aborts on it
				cr.MustFail = "authorization envelope without any signature"
				continue
			}
			for _, k := range it.Signers {
				for _, p := range prins {
					if hasKey(p, k) {
						cr.IDs[p.PID()] = true
					}
				}
			}
		case "app":
			var app *AppSpec
			for ai := range spec.Apps {
				if spec.Apps[ai].Name == it.App {
					app = &spec.Apps[ai]
				}
			}
			if app == nil || !app.Trusted {
				continue
			}
			signedByApp := false
			for _, k := range it.Signers {
				if k == app.Key {
					signedByApp = true
				}
			}
			if !signedByApp {
				cr.MustFail = "approval at this change's path is not signed by the trusted app's key"
				continue
			}
			if it.Stmt != c {
				// a statement for another change never counts; the implementation may fail closed on it
				cr.MustFail = "approval for another change is filed under this change's path"
				continue
			}
			for _, a := range it.Approvers {
				dismissed := false
				for _, d := range it.Dismissed {
					if d == a {
						dismissed = true
					}
				}
				if dismissed {
					cr.Unspecified = "approver listed as both approving and dismissed"
					continue
				}
				for _, p := range prins {
					if p.Person != "" && p.Identities[it.App] == a {
						cr.IDs[p.PID()] = true
						break
					}
				}
			}
		}
	}
	return cr
}

// EntryVerdict is the model's judgement of one push/prop event.
type EntryVerdict struct {
	Valid       bool
	Unspecified string
	Why         string
	Protected   bool
}

// commitEvent returns the event that created the commit event i points at (a
// fast-forward push re-uses the commit of another ref).
func (m *Model) commitEvent(i int) int {
	for guard := 0; guard < len(m.W.Events)+1; guard++ {
		e := m.W.Events[i]
		if e.FF == "" {
			return i
		}
		j := m.prevForRef(e.FF, i)
		if j < 0 {
			return i
		}
		i = j
	}
	return i
}

func (m *Model) parentEvents(i int) []int {
	e := m.W.Events[i]
	var ps []int
	if e.Base != "" {
		if j := m.prevForRef(e.Base, i); j >= 0 {
			ps = append(ps, m.commitEvent(j))
		}
	} else if !e.Force {
		if j := m.prevForRef(e.Ref, i); j >= 0 {
			ps = append(ps, m.commitEvent(j))
		}
	}
	if e.Merge != "" {
		if j := m.prevForRef(e.Merge, i); j >= 0 {
			ps = append(ps, m.commitEvent(j))
		}
	}
	return ps
}

// descends: does event a's commit descend from (or equal) event b's commit?
func (m *Model) descends(a, b int) bool {
	target := m.commitEvent(b)
	seen := map[int]bool{}
	stack := []int{m.commitEvent(a)}
	for len(stack) > 0 {
		cur := stack[len(stack)-1]
		stack = stack[:len(stack)-1]
		if cur == target {
			return true
		}
		if seen[cur] {
			continue
		}
		seen[cur] = true
		stack = append(stack, m.parentEvents(cur)...)
	}
	return false
}

// Judge decides whether event i (push/prop) is authorised by the policy in
// force (pol = index into Policies, -1 none).
func (m *Model) Judge(i, pol int) EntryVerdict {
	e := m.W.Events[i]
	if pol < 0 {
		return EntryVerdict{Valid: false, Why: "no policy in force"}
	}
	spec := &m.W.Policies[pol]
	c := m.ChangeOf(i)
	items := m.attestationsAt(i)
	rules := Consulted(spec, "git:"+e.Ref)
	ev := EntryVerdict{Protected: len(rules) > 0}
	delegationOK := len(rules) == 0
	best := -1
	mustFail := ""
	for _, r := range rules {
		cr := m.creditFor(spec, r.Principals, c, e.Signer, items)
		if cr.Unspecified != "" {
			ev.Unspecified = cr.Unspecified
		}
		if cr.MustFail != "" {
			mustFail = cr.MustFail
		}
		if len(cr.IDs) >= r.Threshold {
			delegationOK = true
			if len(cr.IDs) > best {
				best = len(cr.IDs)
			}
		}
	}
	if len(rules) == 0 {
		// attestations are still looked up for unprotected refs only when global rules exist
		cr := m.creditFor(spec, nil, c, e.Signer, items)
		mustFail = cr.MustFail
	}
	if !delegationOK {
		ev.Why = "no consulted rule is satisfied"
		return ev
	}
	// global rules
	for _, g := range spec.Globals {
		matches := false
		for _, pat := range g.Patterns {
			if patMatch(pat, "git:"+e.Ref) {
				matches = true
			}
		}
		if !matches {
			continue
		}
		switch g.Kind {
		case "threshold":
			all := m.creditFor(spec, AllPrincipals(spec), c, e.Signer, items)
			cAll := len(all.IDs)
			if cAll < g.Threshold {
				ev.Why = fmt.Sprintf("global threshold %d not met (%d authenticated principals)", g.Threshold, cAll)
				return ev
			}
			if len(rules) > 0 && best < g.Threshold {
				ev.Unspecified = "global threshold between rule credit and policy-wide credit"
			}
		case "block-force-pushes":
			// previous unskipped state of the ref
			prev := -1
			for j := i - 1; j >= 0; j-- {
				pe := m.W.Events[j]
				if (pe.Kind == "push" || pe.Kind == "prop") && pe.Ref == e.Ref && !m.Skipped(j) {
					prev = j
					break
				}
			}
			if prev >= 0 {
				if m.W.Events[prev].Kind == "prop" {
					ev.Unspecified = "force-push rule with a propagation entry as previous state"
				}
				if !m.descends(i, prev) {
					ev.Why = "force push blocked by global rule"
					return ev
				}
			}
		}
	}
	if mustFail != "" {
		// the implementation aborts verification when a stored attestation for
		// this change is invalid; the property allows rejection here
		ev.Unspecified = mustFail
	}
	ev.Valid = true
	return ev
}

// VerifyFrom is the model of VerifyRelativeForRef from the first entry
// `start` (event index of a push/prop for ref) to the latest entry for ref.
func (m *Model) VerifyFrom(ref string, start int) Verdict {
	evs := m.W.Events
	last := -1
	for j := len(evs) - 1; j >= 0; j-- {
		if (evs[j].Kind == "push" || evs[j].Kind == "prop") && evs[j].Ref == ref {
			last = j
			break
		}
	}
	if last < 0 || start < 0 || start > last {
		return Verdict{Kind: "REJECT", Why: "no entry for the reference"}
	}
	pol := m.policyAt(start)
	unspecified := ""
	// Once an entry's own verdict is unspecified (the implementation may
	// legitimately treat it as valid or fail closed on it), every later step of
	// the walk depends on which way it went - a fail-closed entry that is revoked
	// starts a recovery that the "valid" reading never enters - so a rejection
	// found after that point is not a verdict either.
	reject := func(why string) Verdict {
		if unspecified != "" {
			return Verdict{Kind: "UNSPECIFIED", Why: unspecified + " (then: " + why + ")"}
		}
		return Verdict{Kind: "REJECT", Why: why}
	}
	// queue of event indices in range relevant to ref
	var queue []int
	for j := start; j <= last; j++ {
		switch evs[j].Kind {
		case "push", "prop":
			if evs[j].Ref == ref {
				queue = append(queue, j)
			}
		case "policy", "rawpolicy":
			queue = append(queue, j)
		}
	}
	for len(queue) > 0 {
		i := queue[0]
		queue = queue[1:]
		e := evs[i]
		if e.Kind == "policy" || e.Kind == "rawpolicy" {
			pol = e.Policy
			continue
		}
		if e.Kind == "prop" && m.Opts.PropagationUnverified {
			continue
		}
		jv := m.Judge(i, pol)
		if jv.Unspecified != "" {
			unspecified = jv.Unspecified
		}
		if jv.Valid {
			continue
		}
		if e.Kind == "prop" {
			return reject(fmt.Sprintf("propagation entry (event %d) is not authorised: %s", i, jv.Why))
		}
		if !m.Skipped(i) {
			return reject(fmt.Sprintf("event %d violates policy and is not revoked: %s", i, jv.Why))
		}
		// recovery: last good = latest unskipped reference entry for ref before i
		good := -1
		for j := i - 1; j >= 0; j-- {
			if evs[j].Kind == "push" && evs[j].Ref == ref && !m.Skipped(j) {
				good = j
				break
			}
		}
		if good < 0 {
			return reject(fmt.Sprintf("event %d violates policy and there is no earlier unskipped state to recover to", i))
		}
		fixed := false
		var deferred []int
		unskippedIntermediate := false
		for len(queue) > 0 {
			n := queue[0]
			queue = queue[1:]
			ne := evs[n]
			if ne.Kind == "policy" || ne.Kind == "rawpolicy" || ne.Kind == "prop" {
				deferred = append(deferred, n)
				continue
			}
			if ne.Tree == evs[good].Tree && !m.Skipped(n) {
				fixed = true
				break
			}
			if !m.Skipped(n) {
				unskippedIntermediate = true
			}
		}
		if !fixed {
			return reject(fmt.Sprintf("event %d violates policy, is revoked, but no later unskipped entry restores the tree of event %d", i, good))
		}
		if unskippedIntermediate {
			return reject(fmt.Sprintf("an entry between violation %d and its fix is not revoked", i))
		}
		queue = append(deferred, queue...)
	}
	if unspecified != "" {
		return Verdict{Kind: "UNSPECIFIED", Why: unspecified}
	}
	return Verdict{Kind: "ACCEPT", Tip: last}
}

// VerifyFull is the model of full verification of ref.
func (m *Model) VerifyFull(ref string) Verdict {
	for j, e := range m.W.Events {
		if (e.Kind == "push" || e.Kind == "prop") && e.Ref == ref {
			return m.VerifyFrom(ref, j)
		}
	}
	return Verdict{Kind: "REJECT", Why: "no entry for the reference"}
}

// VerifyLatest is the model of latest-only verification.
func (m *Model) VerifyLatest(ref string) Verdict {
	for j := len(m.W.Events) - 1; j >= 0; j-- {
		e := m.W.Events[j]
		if (e.Kind == "push" || e.Kind == "prop") && e.Ref == ref {
			if e.Kind == "prop" && m.Opts.PropagationUnverified {
				return Verdict{Kind: "ACCEPT", Tip: j}
			}
			jv := m.Judge(j, m.policyAt(j))
			if jv.Unspecified != "" {
				return Verdict{Kind: "UNSPECIFIED", Why: jv.Unspecified}
			}
			if !jv.Valid {
				return Verdict{Kind: "REJECT", Why: jv.Why}
			}
			return Verdict{Kind: "ACCEPT", Tip: j}
		}
	}
	return Verdict{Kind: "REJECT", Why: "no entry for the reference"}
}

// RunVerifyFull runs gittuf's full verification on a built world.
func RunVerifyFull(st gitstore.Storer, ref string) (githash.Hash, error) {
	return policy.NewPolicyVerifier(st).VerifyRefFull(context.Background(), ref)
}

var _ = sslibdsse.Envelope{}
