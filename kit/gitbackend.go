//go:build verif

package verifkit

import (
	"bytes"
	"fmt"
	"os"
	"os/exec"
	"strings"
	"testing"

	"github.com/gittuf/gittuf/pkg/githash"
	"github.com/gittuf/gittuf/pkg/gitinterface"
	"github.com/gittuf/gittuf/pkg/gitstore"
)

// RawStore is a Storer plus the raw writes/reads the harness needs (what
// someone with push access to the repository can do, and an independent view
// of the objects for the oracles).
type RawStore interface {
	gitstore.Storer
	RawCommit(treeID githash.Hash, parents []githash.Hash, message string, signer *TestKey) (githash.Hash, error)
	RawTag(target githash.Hash, name, message string, signer *TestKey) (githash.Hash, error)
	Refs() (map[string]string, error)
	CommitInfo(id githash.Hash) (tree githash.Hash, parents []githash.Hash, message string, err error)
}

// GitStore is a real on-disk repository (through gitinterface, the code under
// test) plus raw access implemented with NUL-safe git plumbing that never goes
// through gitinterface's parsers.
type GitStore struct {
	*gitinterface.Repository
	Dir    string
	GitDir string
}

// NewGitStore creates a fresh test repository under dir.
func NewGitStore(t *testing.T, dir string, bare bool) *GitStore {
	t.Helper()
	repo := gitinterface.CreateTestGitRepository(t, dir, bare)
	return &GitStore{Repository: repo, Dir: dir, GitDir: repo.GetGitDir()}
}

// Git runs a git command against the repository and returns raw stdout.
func (g *GitStore) Git(stdin []byte, args ...string) ([]byte, error) {
	cmd := exec.Command("git", append([]string{"--git-dir", g.GitDir}, args...)...)
	cmd.Env = append(os.Environ(), "LC_ALL=C", "GIT_NO_REPLACE_OBJECTS=1",
		"GIT_AUTHOR_DATE=1995-10-26T09:00:00Z", "GIT_COMMITTER_DATE=1995-10-26T09:00:00Z",
		"GIT_CONFIG_NOSYSTEM=1")
	if stdin != nil {
		cmd.Stdin = bytes.NewReader(stdin)
	}
	var out, errb bytes.Buffer
	cmd.Stdout, cmd.Stderr = &out, &errb
	if err := cmd.Run(); err != nil {
		return out.Bytes(), fmt.Errorf("git %s: %w: %s", strings.Join(args, " "), err, errb.String())
	}
	return out.Bytes(), nil
}

func (g *GitStore) RawCommit(treeID githash.Hash, parents []githash.Hash, message string, signer *TestKey) (githash.Hash, error) {
	ps := make([]string, 0, len(parents))
	for _, p := range parents {
		ps = append(ps, p.String())
	}
	sig := ""
	if signer != nil {
		sig = string(signer.SignSSH(encodeCommit(treeID.String(), ps, message, "")))
	}
	out, err := g.Git(encodeCommit(treeID.String(), ps, message, sig), "hash-object", "-t", "commit", "-w", "--stdin", "--literally")
	if err != nil {
		return nil, err
	}
	return githash.NewHash(strings.TrimSpace(string(out)))
}

func (g *GitStore) RawTag(target githash.Hash, name, message string, signer *TestKey) (githash.Hash, error) {
	typ, err := g.Git(nil, "cat-file", "-t", target.String())
	if err != nil {
		return nil, err
	}
	if !strings.HasSuffix(message, "\n") {
		message += "\n"
	}
	payload := fmt.Sprintf("object %s\ntype %s\ntag %s\ntagger %s\n\n%s", target.String(), strings.TrimSpace(string(typ)), name, memIdent, message)
	data := payload
	if signer != nil {
		data += string(signer.SignSSH([]byte(payload)))
	}
	out, err := g.Git([]byte(data), "hash-object", "-t", "tag", "-w", "--stdin", "--literally")
	if err != nil {
		return nil, err
	}
	return githash.NewHash(strings.TrimSpace(string(out)))
}

func (g *GitStore) Refs() (map[string]string, error) {
	out, err := g.Git(nil, "for-each-ref", "--format=%(objectname) %(refname)")
	if err != nil {
		return nil, err
	}
	refs := map[string]string{}
	for _, line := range strings.Split(string(out), "\n") {
		if line == "" {
			continue
		}
		id, name, ok := strings.Cut(line, " ")
		if ok {
			refs[name] = id
		}
	}
	return refs, nil
}

func (g *GitStore) CommitInfo(id githash.Hash) (githash.Hash, []githash.Hash, string, error) {
	out, err := g.Git(nil, "cat-file", "commit", id.String())
	if err != nil {
		return nil, nil, "", err
	}
	c, err := parseCommit(out)
	if err != nil {
		return nil, nil, "", err
	}
	var parents []githash.Hash
	for _, p := range c.parents {
		parents = append(parents, mustHash(p))
	}
	return mustHash(c.tree), parents, c.message, nil
}

var (
	_ RawStore = (*GitStore)(nil)
	_ RawStore = (*MemStore)(nil)
)
