//go:build verif

package verifkit

import (
	"errors"
	"fmt"
	"sync"

	"github.com/gittuf/gittuf/pkg/githash"
	"github.com/gittuf/gittuf/pkg/gitstore"
)

// ErrInjected is the error an injected storage fault returns.
var ErrInjected = errors.New("verif: injected storage failure")

// ErrFrozen is returned by every call once a crash has been simulated.
var ErrFrozen = errors.New("verif: store frozen (process stopped)")

// CrashSentinel is the panic value used to abandon an operation at a crash point.
type CrashSentinel struct{ Call int }

// FaultStore wraps a Storer, counts the calls an operation makes and can make
// exactly the k-th call fail, or stop the world right after the k-th call.
type FaultStore struct {
	Inner gitstore.Storer

	mu       sync.Mutex
	calls    []string
	details  []string
	FailAt   int // 1-based index of the call that returns ErrInjected (0: none)
	CrashAt  int // 1-based index of the call after which the process "stops" (0: none)
	frozen   bool
	Injected bool
}

// NewFaultStore wraps inner with no fault armed.
func NewFaultStore(inner gitstore.Storer) *FaultStore { return &FaultStore{Inner: inner} }

// Calls returns the names of the calls made so far.
func (f *FaultStore) Calls() []string {
	f.mu.Lock()
	defer f.mu.Unlock()
	return append([]string{}, f.calls...)
}

// Details returns the calls made so far with their reference argument, if any.
func (f *FaultStore) Details() []string {
	f.mu.Lock()
	defer f.mu.Unlock()
	return append([]string{}, f.details...)
}

// IsWrite reports whether a Storer method mutates the store.
func IsWrite(name string) bool {
	switch name {
	case "SetReference", "DeleteReference", "WriteBlob", "WriteTree", "Commit", "CommitUsingSpecificKey", "ResetDueToError":
		return true
	}
	return false
}

// enter is called at the start of every method; it returns an error to inject.
func (f *FaultStore) enter(name string, detail ...string) (int, error) {
	f.mu.Lock()
	defer f.mu.Unlock()
	if f.frozen {
		return 0, ErrFrozen
	}
	f.calls = append(f.calls, name)
	d := name
	if len(detail) > 0 {
		d = name + "(" + detail[0] + ")"
	}
	f.details = append(f.details, d)
	n := len(f.calls)
	if f.FailAt == n {
		f.Injected = true
		return n, fmt.Errorf("%w (call %d: %s)", ErrInjected, n, name)
	}
	return n, nil
}

// leave is called after the inner call completed.
func (f *FaultStore) leave(n int) {
	f.mu.Lock()
	crash := f.CrashAt != 0 && f.CrashAt == n
	if crash {
		f.frozen = true
		f.Injected = true
	}
	f.mu.Unlock()
	if crash {
		panic(CrashSentinel{Call: n})
	}
}

// RunToCrash runs op and recovers the crash sentinel. It returns op's error,
// and whether the operation was abandoned at the armed crash point.
func RunToCrash(op func() error) (err error, crashed bool) {
	defer func() {
		if r := recover(); r != nil {
			if _, ok := r.(CrashSentinel); ok {
				crashed = true
				return
			}
			panic(r)
		}
	}()
	return op(), false
}

func (f *FaultStore) GetReference(refName string) (githash.Hash, error) {
	n, err := f.enter("GetReference", refName)
	if err != nil {
		return nil, err
	}
	h, e := f.Inner.GetReference(refName)
	f.leave(n)
	return h, e
}

func (f *FaultStore) SetReference(refName string, gitID githash.Hash) error {
	n, err := f.enter("SetReference", refName)
	if err != nil {
		return err
	}
	e := f.Inner.SetReference(refName, gitID)
	f.leave(n)
	return e
}

func (f *FaultStore) DeleteReference(refName string) error {
	n, err := f.enter("DeleteReference", refName)
	if err != nil {
		return err
	}
	e := f.Inner.DeleteReference(refName)
	f.leave(n)
	return e
}

func (f *FaultStore) ReadBlob(blobID githash.Hash) ([]byte, error) {
	n, err := f.enter("ReadBlob")
	if err != nil {
		return nil, err
	}
	b, e := f.Inner.ReadBlob(blobID)
	f.leave(n)
	return b, e
}

func (f *FaultStore) WriteBlob(contents []byte) (githash.Hash, error) {
	n, err := f.enter("WriteBlob")
	if err != nil {
		return nil, err
	}
	h, e := f.Inner.WriteBlob(contents)
	f.leave(n)
	return h, e
}

func (f *FaultStore) EmptyTree() (githash.Hash, error) {
	n, err := f.enter("EmptyTree")
	if err != nil {
		return nil, err
	}
	h, e := f.Inner.EmptyTree()
	f.leave(n)
	return h, e
}

func (f *FaultStore) WriteTree(entries []gitstore.TreeEntry) (githash.Hash, error) {
	n, err := f.enter("WriteTree")
	if err != nil {
		return nil, err
	}
	h, e := f.Inner.WriteTree(entries)
	f.leave(n)
	return h, e
}

func (f *FaultStore) GetAllFilesInTree(treeID githash.Hash) (map[string]githash.Hash, error) {
	n, err := f.enter("GetAllFilesInTree")
	if err != nil {
		return nil, err
	}
	m, e := f.Inner.GetAllFilesInTree(treeID)
	f.leave(n)
	return m, e
}

func (f *FaultStore) GetEntriesInTree(treeID githash.Hash) ([]gitstore.TreeEntry, error) {
	n, err := f.enter("GetEntriesInTree")
	if err != nil {
		return nil, err
	}
	m, e := f.Inner.GetEntriesInTree(treeID)
	f.leave(n)
	return m, e
}

func (f *FaultStore) GetPathIDInTree(treeID githash.Hash, treePath string) (githash.Hash, error) {
	n, err := f.enter("GetPathIDInTree")
	if err != nil {
		return nil, err
	}
	h, e := f.Inner.GetPathIDInTree(treeID, treePath)
	f.leave(n)
	return h, e
}

func (f *FaultStore) GetCommitTreeID(commitID githash.Hash) (githash.Hash, error) {
	n, err := f.enter("GetCommitTreeID")
	if err != nil {
		return nil, err
	}
	h, e := f.Inner.GetCommitTreeID(commitID)
	f.leave(n)
	return h, e
}

func (f *FaultStore) GetCommitMessage(commitID githash.Hash) (string, error) {
	n, err := f.enter("GetCommitMessage")
	if err != nil {
		return "", err
	}
	s, e := f.Inner.GetCommitMessage(commitID)
	f.leave(n)
	return s, e
}

func (f *FaultStore) GetCommitParentIDs(commitID githash.Hash) ([]githash.Hash, error) {
	n, err := f.enter("GetCommitParentIDs")
	if err != nil {
		return nil, err
	}
	hs, e := f.Inner.GetCommitParentIDs(commitID)
	f.leave(n)
	return hs, e
}

func (f *FaultStore) GetCommitsBetweenRange(commitNewID, commitOldID githash.Hash) ([]githash.Hash, error) {
	n, err := f.enter("GetCommitsBetweenRange")
	if err != nil {
		return nil, err
	}
	hs, e := f.Inner.GetCommitsBetweenRange(commitNewID, commitOldID)
	f.leave(n)
	return hs, e
}

func (f *FaultStore) GetFilePathsChangedByCommit(commitID githash.Hash) ([]string, error) {
	n, err := f.enter("GetFilePathsChangedByCommit")
	if err != nil {
		return nil, err
	}
	ps, e := f.Inner.GetFilePathsChangedByCommit(commitID)
	f.leave(n)
	return ps, e
}

func (f *FaultStore) KnowsCommit(commitID, ancestorID githash.Hash) (bool, error) {
	n, err := f.enter("KnowsCommit")
	if err != nil {
		return false, err
	}
	b, e := f.Inner.KnowsCommit(commitID, ancestorID)
	f.leave(n)
	return b, e
}

func (f *FaultStore) GetMergeTree(commitAID, commitBID githash.Hash) (githash.Hash, error) {
	n, err := f.enter("GetMergeTree")
	if err != nil {
		return nil, err
	}
	h, e := f.Inner.GetMergeTree(commitAID, commitBID)
	f.leave(n)
	return h, e
}

func (f *FaultStore) GetTagTarget(tagID githash.Hash) (githash.Hash, error) {
	n, err := f.enter("GetTagTarget")
	if err != nil {
		return nil, err
	}
	h, e := f.Inner.GetTagTarget(tagID)
	f.leave(n)
	return h, e
}

func (f *FaultStore) GetObjectSignature(objectID githash.Hash) ([]byte, []byte, error) {
	n, err := f.enter("GetObjectSignature")
	if err != nil {
		return nil, nil, err
	}
	a, b, e := f.Inner.GetObjectSignature(objectID)
	f.leave(n)
	return a, b, e
}

func (f *FaultStore) Commit(treeID githash.Hash, targetRef, message string, sign bool) (githash.Hash, error) {
	n, err := f.enter("Commit", targetRef)
	if err != nil {
		return nil, err
	}
	h, e := f.Inner.Commit(treeID, targetRef, message, sign)
	f.leave(n)
	return h, e
}

func (f *FaultStore) CommitUsingSpecificKey(treeID githash.Hash, targetRef, message string, signingKeyPEMBytes []byte) (githash.Hash, error) {
	n, err := f.enter("CommitUsingSpecificKey", targetRef)
	if err != nil {
		return nil, err
	}
	h, e := f.Inner.CommitUsingSpecificKey(treeID, targetRef, message, signingKeyPEMBytes)
	f.leave(n)
	return h, e
}

func (f *FaultStore) ZeroHash() githash.Hash { return f.Inner.ZeroHash() }

func (f *FaultStore) LookupConfig(key gitstore.ConfigKey) (string, bool, error) {
	n, err := f.enter("LookupConfig")
	if err != nil {
		return "", false, err
	}
	v, ok, e := f.Inner.LookupConfig(key)
	f.leave(n)
	return v, ok, e
}

func (f *FaultStore) ResetDueToError(cause error, refName string, commitID githash.Hash) error {
	n, err := f.enter("ResetDueToError", refName)
	if err != nil {
		return errors.Join(cause, err)
	}
	e := f.Inner.ResetDueToError(cause, refName, commitID)
	f.leave(n)
	return e
}

var _ gitstore.Storer = (*FaultStore)(nil)

// ---------------------------------------------------------------------------
// Scheduled: serialise the Storer calls of concurrent operations in a chosen order
// ---------------------------------------------------------------------------

// Scheduler grants one Storer call at a time to one of several goroutines,
// following a schedule (a list of goroutine indices). When the schedule is
// exhausted, or names a goroutine that is finished, the lowest-numbered
// unfinished goroutine that is waiting runs.
type Scheduler struct {
	mu       sync.Mutex
	cond     *sync.Cond
	schedule []int
	pos      int
	n        int
	waiting  []bool
	done     []bool
	turn     int // goroutine currently allowed to make a call (-1: none)
	Trace    []string
}

// NewScheduler creates a scheduler for n goroutines.
func NewScheduler(n int, schedule []int) *Scheduler {
	s := &Scheduler{schedule: schedule, n: n, waiting: make([]bool, n), done: make([]bool, n), turn: -1}
	s.cond = sync.NewCond(&s.mu)
	return s
}

func (s *Scheduler) pickLocked() {
	if s.turn >= 0 {
		return
	}
	// everyone not done must be waiting before a choice is made, so that the
	// schedule, not goroutine start-up timing, decides
	for i := 0; i < s.n; i++ {
		if !s.done[i] && !s.waiting[i] {
			return
		}
	}
	for s.pos < len(s.schedule) {
		g := s.schedule[s.pos]
		s.pos++
		if g >= 0 && g < s.n && !s.done[g] && s.waiting[g] {
			s.turn = g
			s.cond.Broadcast()
			return
		}
	}
	for i := 0; i < s.n; i++ {
		if !s.done[i] && s.waiting[i] {
			s.turn = i
			s.cond.Broadcast()
			return
		}
	}
}

// acquire blocks goroutine g until it is granted a call.
func (s *Scheduler) acquire(g int, name string) {
	s.mu.Lock()
	s.waiting[g] = true
	s.pickLocked()
	for s.turn != g {
		s.cond.Wait()
	}
	s.waiting[g] = false
	s.Trace = append(s.Trace, fmt.Sprintf("%d:%s", g, name))
	s.mu.Unlock()
}

func (s *Scheduler) release(g int) {
	s.mu.Lock()
	s.turn = -1
	s.mu.Unlock()
}

// Finish marks goroutine g as finished.
func (s *Scheduler) Finish(g int) {
	s.mu.Lock()
	s.done[g] = true
	if s.turn == g {
		s.turn = -1
	}
	s.pickLocked()
	s.mu.Unlock()
}

// NextPick lets the scheduler choose after a release (called by release paths).
func (s *Scheduler) nextPick() {
	s.mu.Lock()
	s.pickLocked()
	s.mu.Unlock()
}

// SchedStore is the per-goroutine view of a shared Storer under a Scheduler.
type SchedStore struct {
	Inner gitstore.Storer
	S     *Scheduler
	G     int
}

func (c *SchedStore) step(name string) func() {
	c.S.acquire(c.G, name)
	return func() {
		c.S.release(c.G)
		// the goroutine will request its next call (or finish) before anyone is picked
	}
}

func (c *SchedStore) GetReference(refName string) (githash.Hash, error) {
	defer c.step("GetReference")()
	return c.Inner.GetReference(refName)
}
func (c *SchedStore) SetReference(refName string, gitID githash.Hash) error {
	defer c.step("SetReference")()
	return c.Inner.SetReference(refName, gitID)
}
func (c *SchedStore) DeleteReference(refName string) error {
	defer c.step("DeleteReference")()
	return c.Inner.DeleteReference(refName)
}
func (c *SchedStore) ReadBlob(blobID githash.Hash) ([]byte, error) {
	defer c.step("ReadBlob")()
	return c.Inner.ReadBlob(blobID)
}
func (c *SchedStore) WriteBlob(contents []byte) (githash.Hash, error) {
	defer c.step("WriteBlob")()
	return c.Inner.WriteBlob(contents)
}
func (c *SchedStore) EmptyTree() (githash.Hash, error) {
	defer c.step("EmptyTree")()
	return c.Inner.EmptyTree()
}
func (c *SchedStore) WriteTree(entries []gitstore.TreeEntry) (githash.Hash, error) {
	defer c.step("WriteTree")()
	return c.Inner.WriteTree(entries)
}
func (c *SchedStore) GetAllFilesInTree(treeID githash.Hash) (map[string]githash.Hash, error) {
	defer c.step("GetAllFilesInTree")()
	return c.Inner.GetAllFilesInTree(treeID)
}
func (c *SchedStore) GetEntriesInTree(treeID githash.Hash) ([]gitstore.TreeEntry, error) {
	defer c.step("GetEntriesInTree")()
	return c.Inner.GetEntriesInTree(treeID)
}
func (c *SchedStore) GetPathIDInTree(treeID githash.Hash, treePath string) (githash.Hash, error) {
	defer c.step("GetPathIDInTree")()
	return c.Inner.GetPathIDInTree(treeID, treePath)
}
func (c *SchedStore) GetCommitTreeID(commitID githash.Hash) (githash.Hash, error) {
	defer c.step("GetCommitTreeID")()
	return c.Inner.GetCommitTreeID(commitID)
}
func (c *SchedStore) GetCommitMessage(commitID githash.Hash) (string, error) {
	defer c.step("GetCommitMessage")()
	return c.Inner.GetCommitMessage(commitID)
}
func (c *SchedStore) GetCommitParentIDs(commitID githash.Hash) ([]githash.Hash, error) {
	defer c.step("GetCommitParentIDs")()
	return c.Inner.GetCommitParentIDs(commitID)
}
func (c *SchedStore) GetCommitsBetweenRange(a, b githash.Hash) ([]githash.Hash, error) {
	defer c.step("GetCommitsBetweenRange")()
	return c.Inner.GetCommitsBetweenRange(a, b)
}
func (c *SchedStore) GetFilePathsChangedByCommit(commitID githash.Hash) ([]string, error) {
	defer c.step("GetFilePathsChangedByCommit")()
	return c.Inner.GetFilePathsChangedByCommit(commitID)
}
func (c *SchedStore) KnowsCommit(a, b githash.Hash) (bool, error) {
	defer c.step("KnowsCommit")()
	return c.Inner.KnowsCommit(a, b)
}
func (c *SchedStore) GetMergeTree(a, b githash.Hash) (githash.Hash, error) {
	defer c.step("GetMergeTree")()
	return c.Inner.GetMergeTree(a, b)
}
func (c *SchedStore) GetTagTarget(tagID githash.Hash) (githash.Hash, error) {
	defer c.step("GetTagTarget")()
	return c.Inner.GetTagTarget(tagID)
}
func (c *SchedStore) GetObjectSignature(objectID githash.Hash) ([]byte, []byte, error) {
	defer c.step("GetObjectSignature")()
	return c.Inner.GetObjectSignature(objectID)
}
func (c *SchedStore) Commit(treeID githash.Hash, targetRef, message string, sign bool) (githash.Hash, error) {
	defer c.step("Commit")()
	return c.Inner.Commit(treeID, targetRef, message, sign)
}
func (c *SchedStore) CommitUsingSpecificKey(treeID githash.Hash, targetRef, message string, key []byte) (githash.Hash, error) {
	defer c.step("CommitUsingSpecificKey")()
	return c.Inner.CommitUsingSpecificKey(treeID, targetRef, message, key)
}
func (c *SchedStore) ZeroHash() githash.Hash { return c.Inner.ZeroHash() }
func (c *SchedStore) LookupConfig(key gitstore.ConfigKey) (string, bool, error) {
	defer c.step("LookupConfig")()
	return c.Inner.LookupConfig(key)
}
func (c *SchedStore) ResetDueToError(cause error, refName string, commitID githash.Hash) error {
	defer c.step("ResetDueToError")()
	return c.Inner.ResetDueToError(cause, refName, commitID)
}

var _ gitstore.Storer = (*SchedStore)(nil)

// RunScheduled runs the operations concurrently, one goroutine each, with the
// interleaving of their Storer calls fixed by schedule. It returns each
// operation's error and the trace of granted calls.
func RunScheduled(inner gitstore.Storer, schedule []int, ops []func(st gitstore.Storer) error) ([]error, []string) {
	s := NewScheduler(len(ops), schedule)
	errs := make([]error, len(ops))
	var wg sync.WaitGroup
	for i := range ops {
		wg.Add(1)
		go func(i int) {
			defer wg.Done()
			defer s.Finish(i)
			defer func() {
				if r := recover(); r != nil {
					errs[i] = fmt.Errorf("panic: %v", r)
				}
			}()
			errs[i] = ops[i](&SchedStore{Inner: inner, S: s, G: i})
		}(i)
	}
	wg.Wait()
	return errs, s.Trace
}
