#!/usr/bin/env python3
"""Driver for the /verif checks (python3 stdlib only).

  verif.py setup
  verif.py check <Cnn> --tier quick|thorough
  verif.py replay <Cnn> <file>
  verif.py build

Exit codes of `check`: 0 property held on everything explored (KNOWN-FINDING
lines may be printed), 1 violation (a line `VIOLATION property=<id> replay=<path>`
is printed), 2 infrastructure problem (build failure, timeout, worker death,
backend disagreement) - never a statement about the property.
"""
import argparse
import fcntl
import hashlib
import json
import os
import shutil
import subprocess
import sys
import tempfile
import time

VERIF = os.path.dirname(os.path.abspath(__file__))
REPO = os.environ.get("VERIF_REPO", "/repo")
BUILD = os.environ.get("VERIF_BUILD_DIR") or os.path.join(VERIF, "build")  # the override is used by the seeded-change / mutant tools only
BIN = os.path.join(BUILD, "checks.test")
KNOWN = os.path.join(VERIF, "known_findings.json")
EVID = os.environ.get("VERIF_EVIDENCE_DIR") or os.path.join(VERIF, "evidence")  # the override is used by tools_seeded.py only
VIOL = os.environ.get("VERIF_VIOLATIONS_DIR") or os.path.join(VERIF, "violations")
REPLAYS = os.path.join(VERIF, "replays")
NCPU = os.cpu_count() or 4

# virtual package locations inside /repo
KIT_PKG = "internal/verifkit"
CHECKS_PKG = "internal/verifchecks"


def log(*a):
    print(*a, file=sys.stderr, flush=True)


def go_env():
    env = dict(os.environ)
    env["GOFLAGS"] = "-mod=mod"
    env["GOPROXY"] = "off"
    # the default go auto-switches to the toolchain named in /repo/go.mod from
    # the module cache; GOTOOLCHAIN=local / GOSUMDB=off would break that.
    env.pop("GOTOOLCHAIN", None)
    env.pop("GOSUMDB", None)
    env.setdefault("GOCACHE", os.path.expanduser("~/.cache/go-build"))
    return env


def gen_overlay():
    os.makedirs(BUILD, exist_ok=True)
    # modfile: /repo/go.mod + rapid
    with open(os.path.join(REPO, "go.mod")) as f:
        gomod = f.read()
    if "pgregory.net/rapid" not in gomod:
        gomod += "\nrequire pgregory.net/rapid v1.3.0\n"
    modpath = os.path.join(BUILD, "go.mod")
    with open(modpath, "w") as f:
        f.write(gomod)
    shutil.copyfile(os.path.join(REPO, "go.sum"), os.path.join(BUILD, "go.sum"))
    replace = {}
    for name in sorted(os.listdir(os.path.join(VERIF, "kit"))):
        if name.endswith(".go"):
            replace[os.path.join(REPO, KIT_PKG, name)] = os.path.join(VERIF, "kit", name)
    for name in sorted(os.listdir(os.path.join(VERIF, "checks"))):
        if name.endswith(".go"):
            replace[os.path.join(REPO, CHECKS_PKG, name)] = os.path.join(VERIF, "checks", name)
    inj = os.path.join(VERIF, "inject")
    for root, _dirs, files in os.walk(inj):
        for name in files:
            if name.endswith(".go"):
                rel = os.path.relpath(os.path.join(root, name), inj)
                replace[os.path.join(REPO, rel)] = os.path.join(root, name)
    ov = os.path.join(BUILD, "overlay.json")
    with open(ov, "w") as f:
        json.dump({"Replace": replace}, f, indent=1)
    return modpath, ov


def build(quiet=False, snapshot=None):
    """Rebuild the check binary from /repo's current working tree. With
    snapshot=<tag> the fresh binary is copied (still under the build lock, so
    that a concurrent rebuild cannot slip in) and the copy's path returned."""
    os.makedirs(BUILD, exist_ok=True)
    lock = open(os.path.join(BUILD, ".lock"), "w")
    fcntl.flock(lock, fcntl.LOCK_EX)
    try:
        modpath, ov = gen_overlay()
        tmpbin = BIN + ".new.%d" % os.getpid()
        cmd = ["go", "test", "-c", "-o", tmpbin, "-modfile=" + modpath, "-overlay=" + ov,
               "-tags", "verif", "-vet=off", "./" + CHECKS_PKG]
        t0 = time.time()
        p = subprocess.run(cmd, cwd=REPO, env=go_env(), stdout=subprocess.PIPE, stderr=subprocess.STDOUT, text=True)
        if p.returncode != 0:
            log("BUILD FAILED (%s):\n%s" % (" ".join(cmd), p.stdout))
            return False
        os.replace(tmpbin, BIN)
        if not quiet:
            log("built %s in %.1fs" % (BIN, time.time() - t0))
        if snapshot:
            return snapshot_bin(snapshot)
        return True
    finally:
        fcntl.flock(lock, fcntl.LOCK_UN)
        lock.close()


FUZZBIN = os.path.join(BUILD, "checks.fuzz.test")


def build_fuzz(target):
    """Build the checks with native-fuzzing instrumentation (thorough tier of C14 only)."""
    lock = open(os.path.join(BUILD, ".lock"), "w")
    fcntl.flock(lock, fcntl.LOCK_EX)
    try:
        modpath, ov = gen_overlay()
        tmpbin = FUZZBIN + ".new.%d" % os.getpid()
        cmd = ["go", "test", "-c", "-fuzz=" + target, "-o", tmpbin, "-modfile=" + modpath, "-overlay=" + ov,
               "-tags", "verif", "-vet=off", "./" + CHECKS_PKG]
        p = subprocess.run(cmd, cwd=REPO, env=go_env(), stdout=subprocess.PIPE, stderr=subprocess.STDOUT, text=True)
        if p.returncode != 0:
            log("FUZZ BUILD FAILED (%s):\n%s" % (" ".join(cmd), p.stdout))
            return False
        os.replace(tmpbin, FUZZBIN)
        return True
    finally:
        fcntl.flock(lock, fcntl.LOCK_UN)
        lock.close()


def go_unquote(q):
    """Decode a Go interpreted string literal (as written by testing's corpus files) to bytes."""
    assert q[0] == '"' and q[-1] == '"'
    out = bytearray()
    i, q = 0, q[1:-1]
    simple = {"a": 7, "b": 8, "f": 12, "n": 10, "r": 13, "t": 9, "v": 11, "\\": 92, "'": 39, '"': 34}
    while i < len(q):
        c = q[i]
        if c != "\\":
            out += c.encode("utf-8")
            i += 1
            continue
        e = q[i + 1]
        if e in simple:
            out.append(simple[e]); i += 2
        elif e == "x":
            out.append(int(q[i + 2:i + 4], 16)); i += 4
        elif e == "u":
            out += chr(int(q[i + 2:i + 6], 16)).encode("utf-8"); i += 6
        elif e == "U":
            out += chr(int(q[i + 2:i + 10], 16)).encode("utf-8"); i += 10
        elif e in "01234567":
            out.append(int(q[i + 1:i + 4], 8)); i += 4
        else:
            raise ValueError("bad escape in corpus file: \\" + e)
    return bytes(out)


def run_native_fuzz(prop, target, seconds, outdir, replay_kind, make_case):
    """Run `target` for a wall-clock budget. Returns (info dict, list of replay paths of crashers, infra messages)."""
    import base64, re
    info = {"target": target, "budget_s": seconds, "workers": NCPU}
    if not build_fuzz(target):
        return info, [], ["native fuzz binary did not build"]
    cwd = os.path.join(outdir, "fuzzcwd")
    corpus = os.path.join(cwd, "testdata", "fuzz", target)
    os.makedirs(corpus, exist_ok=True)
    cache = os.path.join(outdir, "fuzzcache")
    os.makedirs(cache, exist_ok=True)
    binpath = os.path.join(outdir, "fuzz.test")
    shutil.copyfile(FUZZBIN, binpath)
    os.chmod(binpath, 0o755)
    env = dict(os.environ)
    env["TMPDIR"] = os.path.join(outdir, "fuzztmp")
    os.makedirs(env["TMPDIR"], exist_ok=True)
    cmd = [binpath, "-test.run", "^$", "-test.fuzz", "^%s$" % target, "-test.fuzztime", "%ds" % seconds,
           "-test.fuzzcachedir", cache, "-test.parallel", str(NCPU), "-test.timeout", "0"]
    t0 = time.time()
    try:
        p = subprocess.run(cmd, cwd=cwd, env=env, stdout=subprocess.PIPE, stderr=subprocess.STDOUT, text=True, timeout=seconds + 600)
        out, rc = p.stdout, p.returncode
    except subprocess.TimeoutExpired as e:
        return info, [], ["native fuzzing did not stop %ds after its budget" % 600]
    info["wall_s"] = round(time.time() - t0, 1)
    m = re.findall(r"fuzz: elapsed: \S+, execs: (\d+) \((\d+)/sec\), new interesting: (\d+) \(total: (\d+)\)", out)
    if m:
        info["execs"], info["new_interesting"], info["corpus_total"] = int(m[-1][0]), int(m[-1][2]), int(m[-1][3])
    bl = re.findall(r"gathering baseline coverage: (\d+)/(\d+) completed", out)
    if bl:
        info["seed_inputs"] = int(bl[-1][1])
    crashers = []
    infra = []
    files = sorted(os.listdir(corpus))
    for name in files:
        try:
            lines = open(os.path.join(corpus, name), encoding="utf-8").read().split("\n")
            assert lines[0].startswith("go test fuzz v1")
            mm = re.match(r"^\[\]byte\((.*)\)$", lines[1])
            data = go_unquote(mm.group(1))
        except Exception as e:  # noqa
            infra.append("cannot decode fuzz crasher %s: %s" % (name, e))
            continue
        rf = {"property": prop, "kind": replay_kind, "cause": "native-fuzz", "message": "crasher %s of %s" % (name, target),
              "case": make_case(base64.b64encode(data).decode())}
        os.makedirs(os.path.join(VIOL, prop), exist_ok=True)
        rp = os.path.join(VIOL, prop, "%s-fuzz-%s.json" % (prop, name[:16]))
        with open(rp, "w") as f:
            json.dump(rf, f, indent=1)
        crashers.append(rp)
    info["crashers"] = len(crashers)
    if rc != 0 and not crashers and not infra:
        infra.append("native fuzzing exited %s without a crasher file:\n%s" % (rc, "\n".join(out.splitlines()[-15:])))
    if "execs" not in info and not crashers:
        infra.append("native fuzzing reported no executions:\n%s" % "\n".join(out.splitlines()[-15:]))
    return info, crashers, infra


def load_known():
    if not os.path.exists(KNOWN):
        return []
    with open(KNOWN) as f:
        return json.load(f)


def snapshot_bin(tag):
    """Copy the binary so that a concurrent rebuild cannot change it under us."""
    dst = os.path.join(BUILD, "run-%s-%d.test" % (tag, os.getpid()))
    shutil.copyfile(BIN, dst)
    os.chmod(dst, 0o755)
    return dst


def run_shard(binpath, prop, tier, seed, shard, nshards, outdir, timeout, extra_env=None, replay=None):
    out = os.path.join(outdir, "shard%d.json" % shard)
    env = dict(os.environ)
    env.update({
        "VERIF_PROP": prop, "VERIF_TIER": tier, "VERIF_SEED": str(seed),
        "VERIF_SHARD": str(shard), "VERIF_NSHARDS": str(nshards), "VERIF_OUT": out,
        "VERIF_VIOLDIR": os.path.join(VIOL, prop), "VERIF_KNOWN": KNOWN,
        "VERIF_ROOT": VERIF, "VERIF_BIN": binpath,
    })
    if replay:
        env["VERIF_REPLAY"] = replay
    if extra_env:
        env.update(extra_env)
    cwd = os.path.join(outdir, "cwd%d" % shard)
    os.makedirs(cwd, exist_ok=True)
    env["TMPDIR"] = os.path.join(outdir, "tmp%d" % shard)
    os.makedirs(env["TMPDIR"], exist_ok=True)
    logp = os.path.join(outdir, "shard%d.log" % shard)
    cmd = [binpath, "-test.run", "^Test%s$" % prop, "-test.timeout", "0", "-test.v"]
    lf = open(logp, "w")
    p = subprocess.Popen(cmd, cwd=cwd, env=env, stdout=lf, stderr=subprocess.STDOUT)
    return {"proc": p, "out": out, "log": logp, "lf": lf, "shard": shard, "deadline": time.time() + timeout}


def wait_all(shards):
    status = {}
    pending = list(shards)
    while pending:
        for s in list(pending):
            rc = s["proc"].poll()
            if rc is not None:
                status[s["shard"]] = rc
                s["lf"].close()
                pending.remove(s)
            elif time.time() > s["deadline"]:
                s["proc"].kill()
                s["proc"].wait()
                status[s["shard"]] = "timeout"
                s["lf"].close()
                pending.remove(s)
        time.sleep(0.05)
    return status


def tail(path, n=40):
    try:
        with open(path, errors="replace") as f:
            return "".join(f.readlines()[-n:])
    except OSError:
        return ""


def replay_once(binpath, prop, path, outdir, idx, timeout=600, tier="quick"):
    s = run_shard(binpath, prop, tier, 1, idx, 1, outdir, timeout, replay=os.path.abspath(path))
    st = wait_all([s])[idx]
    if st == "timeout":
        return None, "timeout"
    try:
        with open(s["out"]) as f:
            d = json.load(f)
    except (OSError, ValueError):
        return None, "no output (exit %s)\n%s" % (st, tail(s["log"]))
    rr = d.get("extra", {}).get("replay_result")
    if rr is None:
        return None, "replay not handled by Test%s (kind unknown?)\n%s" % (prop, tail(s["log"]))
    return rr, None


def cmd_check(prop, tier, seed, nshards, keep):
    t0 = time.time()
    os.makedirs(EVID, exist_ok=True)
    evpath = os.path.join(EVID, prop + ".json")
    binpath = build(quiet=True, snapshot=prop)
    if not binpath:
        return 2
    outdir = tempfile.mkdtemp(prefix="run-%s-" % prop, dir=BUILD)
    rc = 2
    try:
        rc = _check(prop, tier, seed, nshards, binpath, outdir, evpath, t0)
    finally:
        try:
            os.unlink(binpath)
        except OSError:
            pass
        if not keep and rc != 2:
            shutil.rmtree(outdir, ignore_errors=True)
        elif rc == 2:
            log("outputs kept in", outdir)
    return rc


def _check(prop, tier, seed, nshards, binpath, outdir, evpath, t0):
    known = [k for k in load_known() if k.get("property") == prop]
    known_lines = []
    violations = []
    infra = []

    # ---- replay tier: saved cases ------------------------------------
    rdir = os.path.join(REPLAYS, prop)
    replay_files = sorted(os.path.join(rdir, n) for n in os.listdir(rdir)) if os.path.isdir(rdir) else []
    replay_files = [p for p in replay_files if p.endswith(".json")]
    known_by_replay = {}
    for k in known:
        if k.get("replay"):
            known_by_replay[os.path.normpath(os.path.join(VERIF, k["replay"]))] = k
    n_replayed = 0
    for i, rp in enumerate(replay_files):
        rr, err = replay_once(binpath, prop, rp, outdir, 1000 + i)
        if err:
            infra.append("replay %s: %s" % (rp, err))
            continue
        n_replayed += 1
        k = known_by_replay.get(os.path.normpath(rp))
        if rr["violated"]:
            cause = rr.get("cause") or ""
            if cause.startswith("known:") and not (k and k.get("status") == "known" and cause == "known:" + k["id"]):
                # classified as a known finding that this replay file is not registered for
                kk = [x for x in known if x.get("status") == "known" and "known:" + x["id"] == cause]
                if kk:
                    continue
            if k and k.get("status") == "known":
                known_lines.append("KNOWN-FINDING: property=%s %s [%s] (replay %s still fails: %s)" % (
                    prop, k["what"], k["id"], os.path.relpath(rp, VERIF), rr.get("cause")))
            else:
                violations.append({"replay": rp, "cause": rr.get("cause"), "message": rr.get("message"), "campaign": "regression"})
        else:
            if k and k.get("status") == "known":
                log("note: known finding %s no longer reproduces from %s" % (k["id"], rp))

    # ---- main run: shards --------------------------------------------
    timeout = 3 * 3600 if tier == "thorough" else 3000
    shards = [run_shard(binpath, prop, tier, seed, i, nshards, outdir, timeout) for i in range(nshards)]
    status = wait_all(shards)
    outs = []
    for s in shards:
        st = status[s["shard"]]
        d = None
        try:
            with open(s["out"]) as f:
                d = json.load(f)
        except (OSError, ValueError):
            pass
        if st == "timeout":
            infra.append("shard %d timed out after %ds" % (s["shard"], timeout))
        elif d is None:
            infra.append("shard %d died (exit %s) without output:\n%s" % (s["shard"], st, tail(s["log"])))
        else:
            outs.append(d)
            if st != 0 and not d.get("violations"):
                infra.append("shard %d exit %s without a recorded violation:\n%s" % (s["shard"], st, tail(s["log"])))

    # ---- merge ---------------------------------------------------------
    evals = sum(d["evaluations"] for d in outs)
    hashes = set()
    overflow = 0
    classes = {}
    samples = []
    notes = []
    known_hits = {}
    rule = ""
    exhaustive = None
    extra = {}
    inconclusive = 0
    for d in outs:
        hashes.update(d.get("hashes") or [])
        overflow += d.get("hash_overflow", 0)
        for k, v in (d.get("classes") or {}).items():
            classes[k] = classes.get(k, 0) + v
        for smp in (d.get("samples") or []):
            if len(samples) < 12:
                samples.append(smp)
        for n in d.get("notes") or []:
            if n not in notes:
                notes.append(n)
        for k, v in (d.get("known_hits") or {}).items():
            e = known_hits.setdefault(k, {"count": 0, "sample": v.get("sample")})
            e["count"] += v["count"]
        rule = rule or d.get("rule", "")
        if d.get("exhaustive") is not None:
            exhaustive = d["exhaustive"] if exhaustive is None else (exhaustive and d["exhaustive"])
        for k, v in (d.get("extra") or {}).items():
            if isinstance(v, (int, float)) and not isinstance(v, bool):
                extra[k] = extra.get(k, 0) + v
            else:
                extra.setdefault(k, v)
        inconclusive += d.get("inconclusive", 0)
        for v in d.get("violations") or []:
            v = dict(v)
            v["shard"] = d["shard"]
            if v.get("cause") in ("harness", "backend-disagreement"):
                infra.append("shard %d campaign %s: %s" % (d["shard"], v.get("campaign"), v.get("message")))
            else:
                violations.append(v)

    # ---- native (coverage-guided) fuzzing: thorough tier only -------------
    native = NATIVE_FUZZ.get(prop)
    if native and tier == "thorough" and not violations:
        secs = int(os.environ.get("VERIF_FUZZ_SECONDS", "") or native["seconds"])
        info, crashers, finfra = run_native_fuzz(prop, native["target"], secs, outdir, native["kind"], native["case"])
        extra["native_fuzz"] = info
        infra.extend(finfra)
        for rp in crashers:
            violations.append({"campaign": "native-fuzz", "cause": "native-fuzz:" + os.path.basename(rp), "replay": rp, "message": "crasher found by go native fuzzing"})
        evals += info.get("execs", 0)
        notes.append("native fuzzing (%s, %d workers, %ds wall-clock budget) contributed %d executions; they are counted in evaluations but not in distinct_nontrivial" % (native["target"], NCPU, secs, info.get("execs", 0)))

    # ---- confirm violations by replaying the saved case (bypasses rapid) ----
    confirmed = []
    # one representative per (campaign, cause): the one with the smallest replay file
    def _size(v):
        try:
            return os.path.getsize(v.get("replay") or "")
        except OSError:
            return 1 << 60
    reps = {}
    for v in violations:
        key = (v.get("campaign"), v.get("cause"))
        if key not in reps or _size(v) < _size(reps[key]):
            reps[key] = v
    n_raw_violations = len(violations)
    violations = sorted(reps.values(), key=lambda v: (str(v.get("campaign")), str(v.get("cause"))))
    for i, v in enumerate(violations):
        rp = v.get("replay")
        if v.get("campaign") == "regression":
            confirmed.append(v)
            continue
        if not rp or not os.path.exists(rp):
            infra.append("violation without replay file: %s" % json.dumps(v))
            continue
        ok = False
        last_err = None
        for attempt in range(3):
            rr, err = replay_once(binpath, prop, rp, outdir, 2000 + i * 10 + attempt, tier=tier)
            if err:
                last_err = err
                continue
            if rr["violated"]:
                ok = True
                break
        if ok:
            confirmed.append(v)
        else:
            infra.append("violation of campaign %s did not reproduce from its replay file %s (%s): %s" % (
                v.get("campaign"), rp, last_err or "replay passed", v.get("message")))

    # ---- known findings hit by the campaigns ---------------------------
    known_ids = {k["id"]: k for k in known if k.get("status") == "known"}
    for kid, h in sorted(known_hits.items()):
        if kid in known_ids:
            line_prefix = "KNOWN-FINDING: property=%s %s [%s]" % (prop, known_ids[kid]["what"], kid)
            if not any(l.startswith(line_prefix) for l in known_lines):
                known_lines.append("%s (%d generated cases hit it)" % (line_prefix, h["count"]))
        else:
            infra.append("check classified %d cases as known finding %r which is not listed in known_findings.json" % (h["count"], kid))

    wall = time.time() - t0
    level = "fault_enumeration" if prop == "C16" else "exploration"
    coverage = {
        "evaluations": int(evals),
        "distinct_nontrivial": int(len(hashes)),
        "rule": rule + ((" [distinct count capped: %d further distinct non-trivial cases seen beyond the per-shard hash cap are not counted]" % overflow) if overflow else ""),
        "samples": samples,
        "classes": dict(sorted(classes.items())),
        "shards": nshards,
        "shards_completed": len(outs),
        "regression_replays": n_replayed,
        "known_findings_hit": {k: v["count"] for k, v in known_hits.items()},
        "inconclusive": inconclusive,
        "notes": notes,
        "failing_shard_campaigns": n_raw_violations,
    }
    if exhaustive is not None:
        coverage["exhaustive"] = bool(exhaustive)
    for k, v in extra.items():
        if k != "replay_result":
            coverage.setdefault(k, v)
    ev = {
        "property_id": prop, "tier": tier, "seed": int(seed), "level": level,
        "coverage": coverage,
        "assumptions": ASSUMPTIONS.get(prop, []) + COMMON_ASSUMPTIONS,
        "wall_s": round(wall, 2), "violations": len(confirmed),
    }
    if infra:
        ev["coverage"]["infrastructure_problems"] = infra[:10]
    tmp = evpath + ".tmp.%d" % os.getpid()
    with open(tmp, "w") as f:
        json.dump(ev, f, indent=1)
    os.replace(tmp, evpath)

    for l in known_lines:
        print(l)
    print("%s %s seed=%d: %d cases (%d distinct non-trivial), %d shard(s), %.1fs" % (prop, tier, seed, evals, len(hashes), nshards, wall))
    if confirmed:
        os.makedirs(os.path.join(VIOL, prop), exist_ok=True)
        for v in confirmed:
            print("VIOLATION property=%s replay=%s" % (prop, v["replay"]))
            print("  cause=%s campaign=%s: %s" % (v.get("cause"), v.get("campaign"), (v.get("message") or "")[:2000]))
        return 1
    if infra:
        for m in infra:
            log("INFRASTRUCTURE: " + m)
        return 2
    if evals < 1 or len(hashes) < 2:
        log("INFRASTRUCTURE: check produced too few cases (%d evaluations, %d distinct non-trivial)" % (evals, len(hashes)))
        return 2
    return 0


NATIVE_FUZZ = {
    "C14": {"target": "FuzzC14Text", "seconds": 300, "kind": "text", "case": lambda b64: {"text": b64, "how": "fuzz"}},
}

COMMON_ASSUMPTIONS = [
    "harness code is injected with go build -overlay/-modfile (tag verif); /repo sources are compiled as they are in the working tree",
    "a violation is only reported after it reproduced from its saved replay file in a fresh process, bypassing rapid",
]
ASSUMPTIONS = {}


def load_assumptions():
    p = os.path.join(VERIF, "assumptions.json")
    if os.path.exists(p):
        with open(p) as f:
            ASSUMPTIONS.update(json.load(f))


def cmd_replay(prop, path):
    binpath = build(quiet=True, snapshot=prop + "r")
    if not binpath:
        return 2
    outdir = tempfile.mkdtemp(prefix="replay-%s-" % prop, dir=BUILD)
    try:
        rr, err = replay_once(binpath, prop, path, outdir, 0)
        if err:
            log("INFRASTRUCTURE: " + err)
            return 2
        cause = rr.get("cause") or ""
        if rr["violated"] and cause.startswith("known:"):
            kk = [x for x in load_known() if x.get("property") == prop and x.get("status") == "known" and "known:" + x["id"] == cause]
            if kk:
                print("KNOWN-FINDING: property=%s %s [%s] (replay %s)" % (prop, kk[0]["what"], kk[0]["id"], path))
                return 0
        if rr["violated"]:
            print("VIOLATION property=%s replay=%s" % (prop, os.path.abspath(path)))
            print("  cause=%s: %s" % (rr.get("cause"), rr.get("message")))
            return 1
        print("replay passed: property %s holds on %s" % (prop, path))
        return 0
    finally:
        os.unlink(binpath)
        shutil.rmtree(outdir, ignore_errors=True)


def cmd_setup():
    os.makedirs(EVID, exist_ok=True)
    if not build():
        return 2
    # sanity: the binary lists its tests
    p = subprocess.run([BIN, "-test.list", "^TestC"], stdout=subprocess.PIPE, text=True)
    log("checks available:", " ".join(p.stdout.split()))
    return 0 if p.returncode == 0 else 2


def main():
    ap = argparse.ArgumentParser()
    sub = ap.add_subparsers(dest="cmd", required=True)
    sub.add_parser("setup")
    sub.add_parser("build")
    c = sub.add_parser("check")
    c.add_argument("prop")
    c.add_argument("--tier", default=os.environ.get("VERIF_TIER") or "quick", choices=["quick", "thorough"])
    c.add_argument("--seed", type=int, default=None)
    c.add_argument("--shards", type=int, default=None)
    c.add_argument("--keep", action="store_true")
    r = sub.add_parser("replay")
    r.add_argument("prop")
    r.add_argument("path")
    a = ap.parse_args()
    load_assumptions()
    if a.cmd == "setup":
        return cmd_setup()
    if a.cmd == "build":
        return 0 if build() else 2
    if a.cmd == "replay":
        return cmd_replay(a.prop, a.path)
    seed = a.seed
    if seed is None:
        try:
            seed = int(os.environ.get("VERIF_SEED", "") or 20260923)
        except ValueError:
            seed = int(hashlib.sha256(os.environ["VERIF_SEED"].encode()).hexdigest()[:12], 16)
    seed = abs(seed) % (1 << 62)
    nshards = a.shards or int(os.environ.get("VERIF_SHARDS", "0") or 0) or min(16, NCPU)
    return cmd_check(a.prop, a.tier, seed, nshards, a.keep)


if __name__ == "__main__":
    sys.exit(main())
