#!/usr/bin/env python3
"""Refreshes the quick-tier table in DESIGN.md §9.1 from evidence/*.json."""
import json, os
V = os.path.dirname(os.path.abspath(__file__))
rows = ["| prop | evaluations | distinct non-trivial | exhaustive part | known findings hit | wall s |", "|---|---|---|---|---|---|"]
for i in range(1, 21):
    pid = "C%02d" % i
    e = json.load(open(os.path.join(V, "evidence", pid + ".json")))
    c = e["coverage"]
    rows.append("| %s | %d | %d | %s | %s | %d |" % (pid, c["evaluations"], c["distinct_nontrivial"], "yes" if c.get("exhaustive") else "-",
                ", ".join("%s x%d" % (k.split("-", 1)[1][:40], v) for k, v in (c.get("known_findings_hit") or {}).items()) or "-", e["wall_s"]))
p = os.path.join(V, "DESIGN.md")
s = open(p).read()
a, b = s.index("<!-- QUICK-TABLE-BEGIN -->"), s.index("<!-- QUICK-TABLE-END -->")
s = s[:a] + "<!-- QUICK-TABLE-BEGIN -->\n" + "\n".join(rows) + "\n" + s[b:]
open(p, "w").write(s)
print("\n".join(rows))
