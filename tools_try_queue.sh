#!/bin/sh
# usage: tools_try_queue.sh <id>[:props] ...   - run tools_seeded.py try sequentially, results recorded in seeded/<id>/meta.json
for x in "$@"; do
  id=${x%%:*}; props=${x#*:}
  if [ "$props" = "$x" ]; then python3 /verif/tools_seeded.py try $id; else python3 /verif/tools_seeded.py try $id --props $props; fi
done
