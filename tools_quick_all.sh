#!/bin/sh
# run every quick check against /repo as it is (writes evidence/), print a summary line per property
cd "$(dirname "$0")"
for p in C01 C02 C03 C04 C05 C06 C07 C08 C09 C10 C11 C12 C13 C14 C15 C16 C17 C18 C19 C20; do
  s=$(date +%s)
  python3 verif.py check $p --tier quick > build/quick-$p.out 2>&1
  rc=$?
  echo "QUICK $p exit=$rc secs=$(( $(date +%s) - s ))"
  grep -E "^VIOLATION|INFRASTRUCTURE" build/quick-$p.out | head -3
done
