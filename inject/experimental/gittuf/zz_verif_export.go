//go:build verif

package gittuf

import "github.com/gittuf/gittuf/pkg/gitinterface"

// VerifWrap wraps a gitinterface repository as a gittuf Repository (injected by
// /verif with -overlay; never committed).
func VerifWrap(r *gitinterface.Repository) *Repository { return &Repository{r: r} }
