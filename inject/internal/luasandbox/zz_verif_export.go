//go:build verif

package luasandbox

import lua "github.com/yuin/gopher-lua"

// VerifState exposes the sandbox's Lua state to the harness (injected by /verif
// with -overlay; never committed).
func (l *LuaEnvironment) VerifState() *lua.LState { return l.lState }
