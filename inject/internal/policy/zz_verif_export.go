//go:build verif

package policy

import (
	"github.com/gittuf/gittuf/internal/tuf"
	"github.com/gittuf/gittuf/pkg/gitstore"
)

// Harness-only accessors (injected by /verif with -overlay; never committed).

// VerifPrincipals returns the principals a verifier trusts, as resolved by the
// delegation walk.
func (v *SignatureVerifier) VerifPrincipals() []tuf.Principal { return v.principals }

// VerifHasFileRule reports the state's file-rule gate.
func (s *State) VerifHasFileRule() bool { return s.hasFileRule }

// VerifSetRepository attaches a storer to a State built from metadata only.
func (s *State) VerifSetRepository(repo gitstore.Storer) { s.repository = repo }

// VerifNewVerifier builds a SignatureVerifier the way the walk does.
func VerifNewVerifier(repo gitstore.Storer, name string, principals []tuf.Principal, threshold int) *SignatureVerifier {
	return &SignatureVerifier{repository: repo, name: name, principals: principals, threshold: threshold}
}

// VerifNewExhaustiveVerifier builds the verifier FindVerifiersForPath puts in
// front when global rules exist: it authenticates every principal it can.
func VerifNewExhaustiveVerifier(repo gitstore.Storer, name string, principals []tuf.Principal) *SignatureVerifier {
	return &SignatureVerifier{repository: repo, name: name, principals: principals, threshold: 1, verifyExhaustively: true}
}
