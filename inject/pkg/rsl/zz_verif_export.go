//go:build verif

package rsl

// Harness-only accessors (injected by /verif with -overlay; never committed).

// VerifResetCache drops the process-wide entry/parent cache.
func VerifResetCache() { newRSLCache() }

// VerifCanonicalText returns the text gittuf would write for the entry.
func VerifCanonicalText(e Entry) (string, error) { return e.createCommitMessage(true) }
