#!/usr/bin/env python3
"""Refreshes the seeded-change table in DESIGN.md Appendix B from seeded/*/meta.json."""
import os, subprocess
V = os.path.dirname(os.path.abspath(__file__))
table = subprocess.run(["python3", os.path.join(V, "tools_seeded.py"), "table"], stdout=subprocess.PIPE, text=True).stdout
p = os.path.join(V, "DESIGN.md")
s = open(p).read()
a, b = s.index("<!-- SEEDED-TABLE-BEGIN -->"), s.index("<!-- SEEDED-TABLE-END -->")
s = s[:a] + "<!-- SEEDED-TABLE-BEGIN -->\n" + table + s[b:]
open(p, "w").write(s)
print("table refreshed:", table.count("\n") - 2, "rows")
