#!/usr/bin/env python3
"""Re-reads build-mut/confirm/<id>.log (the JSON printed by `tools_seeded.py confirm`) into seeded/<id>/meta.json
when the `confirmed` record was lost to a concurrent writer."""
import json, os, re, glob
V = os.path.dirname(os.path.abspath(__file__))
for log in sorted(glob.glob(os.path.join(V, "build-mut", "confirm", "*.log"))):
    sid = os.path.basename(log)[:-4]
    txt = open(log).read()
    m = re.search(r"^\{\n.*?^\}\n", txt, re.S | re.M)
    if not m:
        continue
    try:
        res = json.loads(m.group(0))
    except ValueError:
        continue
    mp = os.path.join(V, "seeded", sid, "meta.json")
    meta = json.load(open(mp))
    cur = meta.get("confirmed")
    if cur is None or (not cur.get("existing_tests_pass") and res.get("existing_tests_pass")):
        meta["confirmed"] = res
        json.dump(meta, open(mp, "w"), indent=1, sort_keys=True)
        open(mp, "a").write("\n")
        print("restored", sid, res.get("existing_tests_pass"))
