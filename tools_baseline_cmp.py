#!/usr/bin/env python3
"""Compares a `go test -json` log with the stable-pass list of BASELINE.json."""
import json, sys
base = set(json.load(open('/root/.vp/BASELINE.json'))['stable_pass'])
res = {}
for l in open(sys.argv[1]):
    try: d = json.loads(l)
    except ValueError: continue
    if d.get('Test') and d.get('Action') in ('pass', 'fail', 'skip'):
        res[d['Package'] + '::' + d['Test']] = d['Action']
failed = [k for k, v in res.items() if v == 'fail']
missing = [k for k in base if res.get(k) != 'pass']
print("passed", sum(1 for v in res.values() if v == 'pass'), "failed", len(failed), "baseline tests not passing", len(missing))
for k in failed[:20]: print(" FAIL", k)
for k in missing[:20]: print(" MISSING", k, res.get(k))
