#!/bin/sh
# usage: tools_try.sh <patch.diff> <prop> [<prop>...]   - apply a patch in a scratch worktree and run quick checks against it
# (never touches /repo; evidence and violations go to build-mut/)
P=$1; shift
WT=/tmp/mutwt-$$
git -C /repo worktree add --detach -q $WT HEAD || exit 2
trap 'git -C /repo worktree remove --force $WT; git -C /repo worktree prune' EXIT
git -C $WT apply "$P" || { echo "patch does not apply"; exit 2; }
for prop in "$@"; do
  s=$(date +%s)
  VERIF_REPO=$WT VERIF_BUILD_DIR=/verif/build-mut VERIF_EVIDENCE_DIR=/verif/build-mut/evidence VERIF_VIOLATIONS_DIR=/verif/build-mut/violations \
    python3 /verif/verif.py check $prop --tier ${TIER:-quick} > /verif/build-mut/try-$prop.out 2>&1
  rc=$?
  e=$(date +%s)
  echo "TRY $(basename $(dirname $P))/$(basename $(dirname $(dirname $P))) $prop exit=$rc secs=$((e-s)) $(grep -c '^VIOLATION' /verif/build-mut/try-$prop.out) violation line(s)"
  grep -A1 '^VIOLATION' /verif/build-mut/try-$prop.out | grep cause= | cut -c1-300 | head -3
  [ $rc -ge 2 ] && tail -5 /verif/build-mut/try-$prop.out
done
