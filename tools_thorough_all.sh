#!/bin/sh
# run every thorough check sequentially against the snapshot repo
export VERIF_REPO=$VP_RUN_REPO
export VERIF_SHARDS=8
python3 verif.py setup || exit 2
for p in ${THOROUGH_PROPS:-C04 C05 C06 C14 C07 C08 C09 C11 C19 C03 C12 C13 C16 C17 C01 C02 C20 C10 C15 C18}; do
  s=$(date +%s)
  python3 verif.py check $p --tier thorough > out_$p.txt 2>&1
  rc=$?
  e=$(date +%s)
  echo "THOROUGH $p exit=$rc secs=$((e-s))"
  grep -E "VIOLATION|KNOWN-FINDING|INFRASTRUCTURE" out_$p.txt | head -5
done
