#!/bin/sh
# usage: tools_confirm_queue.sh <parallel> <id>...   - confirm seeded changes (tools_seeded.py confirm) N at a time
PAR=$1; shift
mkdir -p /verif/build-mut/confirm
printf '%s\n' "$@" | xargs -P $PAR -I{} sh -c 'python3 /verif/tools_seeded.py confirm /verif/seeded/{} > /verif/build-mut/confirm/{}.log 2>&1; tail -1 /verif/build-mut/confirm/{}.log'
