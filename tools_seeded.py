#!/usr/bin/env python3
"""Seeded-change tooling (sensitivity of the checks; see DESIGN.md Appendix B).

  tools_seeded.py confirm <seeded/ID> [--tests pkg,pkg]   confirm a seeded change in a scratch worktree under /tmp
  tools_seeded.py run <ID> [--props C01,C02] [--tier quick] [--seed N]
                                                          apply seeded/<ID>/patch.diff to /repo, run the checks, undo
  tools_seeded.py import <Cnn> <A|B> [--summary ..] [--needs ..]  copy a sub-agent deliverable from /tmp/seedout into seeded/
  tools_seeded.py try <ID> [--props C01,C02] [--tier quick]       like run, but in a scratch worktree under /tmp (leaves /repo alone)
  tools_seeded.py table                                   print the catch table from the meta.json files

Seeded changes are never committed to /repo; `run` refuses to start when /repo
has uncommitted changes and always ends with `git checkout -- .`.
"""
import argparse, json, os, re, shutil, subprocess, sys, time

V = os.path.dirname(os.path.abspath(__file__))
REPO = "/repo"
SEEDED = os.path.join(V, "seeded")


def sh(cmd, cwd=None, timeout=None, env=None):
    p = subprocess.run(cmd, cwd=cwd, shell=isinstance(cmd, str), stdout=subprocess.PIPE, stderr=subprocess.STDOUT, text=True, timeout=timeout, env=env)
    return p.returncode, p.stdout


def meta_path(d):
    return os.path.join(d, "meta.json")


def load_meta(d):
    try:
        return json.load(open(meta_path(d)))
    except OSError:
        return {}


def save_meta(d, m):
    json.dump(m, open(meta_path(d), "w"), indent=1, sort_keys=True)
    open(meta_path(d), "a").write("\n")


def touched_packages(patch):
    pk = set()
    for l in open(patch):
        m = re.match(r"\+\+\+ b/(.*)/[^/]+\.go$", l.strip())
        if m:
            pk.add("./" + m.group(1))
    return sorted(pk)


def cmd_confirm(a):
    d = os.path.abspath(a.dir)
    sid = os.path.basename(d)
    patch = os.path.join(d, "patch.diff")
    wt = "/tmp/seedconfirm-" + sid
    sh(["git", "-C", REPO, "worktree", "remove", "--force", wt])
    rc, out = sh(["git", "-C", REPO, "worktree", "add", "--detach", "-q", wt, "HEAD"])
    if rc:
        print(out)
        return 2
    res = {}
    try:
        # demo files
        demos = []
        for root, _, files in os.walk(os.path.join(d, "demo")):
            for f in files:
                rel = os.path.relpath(os.path.join(root, f), os.path.join(d, "demo"))
                demos.append(rel)
                os.makedirs(os.path.dirname(os.path.join(wt, rel)) or wt, exist_ok=True)
                shutil.copyfile(os.path.join(root, f), os.path.join(wt, rel))
        demo_pkgs = sorted({"./" + os.path.dirname(x) for x in demos})
        demo_run = "|".join(sorted(set(re.findall(r"func (Test\w+)\(", "".join(open(os.path.join(d, "demo", x)).read() for x in demos)))))
        def run_demo():
            return sh(["go", "test", "-mod=mod", "-vet=off", "-count=1", "-timeout", "60m", "-run", "^(%s)$" % demo_run] + demo_pkgs, cwd=wt)
        rc0, out0 = run_demo()
        res["demo_passes_on_unchanged"] = rc0 == 0
        rc, out = sh(["git", "apply", patch], cwd=wt)
        res["applies"] = rc == 0
        if rc:
            print(out)
        rc, out = sh(["go", "build", "-mod=mod", "./..."], cwd=wt)
        res["builds"] = rc == 0
        rc1, out1 = run_demo()
        res["demo_fails_on_changed"] = rc1 != 0
        res["demo_output_changed_tail"] = "\n".join(out1.strip().splitlines()[-12:])
        if not res["demo_passes_on_unchanged"]:
            res["demo_output_unchanged_tail"] = "\n".join(out0.strip().splitlines()[-12:])
        # existing tests of the touched packages and their importers (without the demo files)
        for x in demos:
            os.remove(os.path.join(wt, x))
        pkgs = a.tests.split(",") if a.tests else None
        if pkgs is None:
            pkgs = ["./..."] if a.full else touched_packages(patch)
        t0 = time.time()
        rc, out = sh(["go", "test", "-mod=mod", "-vet=off", "-count=1", "-timeout", "240m"] + pkgs, cwd=wt)
        res["existing_tests_pass"] = rc == 0
        if rc and "test timed out" in out:
            res["existing_tests_timed_out"] = True  # machine load, not a verdict
        res["existing_tests_packages"] = pkgs
        res["existing_tests_seconds"] = round(time.time() - t0)
        if rc:
            res["existing_tests_failures"] = [l for l in out.splitlines() if l.startswith("--- FAIL") or l.startswith("FAIL")][:20]
    finally:
        sh(["git", "-C", REPO, "worktree", "remove", "--force", wt])
        sh(["git", "-C", REPO, "worktree", "prune"])
    m = load_meta(d)
    m.setdefault("id", sid)
    m["confirmed"] = res
    m["repo_commit"] = sh(["git", "-C", REPO, "rev-parse", "--short", "HEAD"])[1].strip()
    save_meta(d, m)
    print(json.dumps(res, indent=1))
    ok = all(res.get(k) for k in ("applies", "builds", "demo_passes_on_unchanged", "demo_fails_on_changed", "existing_tests_pass"))
    print("CONFIRMED" if ok else "NOT CONFIRMED", sid)
    return 0 if ok else 1


def cmd_run(a):
    d = os.path.join(SEEDED, a.id)
    patch = os.path.join(d, "patch.diff")
    rc, out = sh(["git", "-C", REPO, "status", "--porcelain"])
    if out.strip():
        print("refusing: /repo has uncommitted changes:\n" + out)
        return 2
    m = load_meta(d)
    props = a.props.split(",") if a.props else [m.get("property") or a.id[:3]]
    rc, out = sh(["git", "-C", REPO, "apply", patch])
    if rc:
        print("patch does not apply:", out)
        return 2
    results = []
    try:
        for p in props:
            env = dict(os.environ)
            env["VERIF_EVIDENCE_DIR"] = os.path.join(V, "build", "seeded-evidence")
            env["VERIF_VIOLATIONS_DIR"] = os.path.join(V, "build", "seeded-violations", a.id)
            cmd = ["python3", os.path.join(V, "verif.py"), "check", p, "--tier", a.tier]
            if a.seed is not None:
                cmd += ["--seed", str(a.seed)]
            t0 = time.time()
            rc, out = sh(cmd, cwd=V, env=env)
            viol = [l for l in out.splitlines() if l.startswith("VIOLATION")]
            causes = sorted(set(re.findall(r"cause=([\w:.-]+)", out)))
            r = {"check": p, "tier": a.tier, "seed": a.seed, "exit": rc, "caught": rc == 1 and bool(viol), "seconds": round(time.time() - t0), "causes": causes[:6], "violations": len(viol)}
            if rc not in (0, 1):
                r["output_tail"] = "\n".join(out.strip().splitlines()[-8:])
            results.append(r)
            print(json.dumps(r))
    finally:
        sh(["git", "-C", REPO, "checkout", "--", "."])
    m = load_meta(d)  # reload: a confirmation may have been recorded meanwhile
    runs = [r for r in m.get("runs", []) if not any(r["check"] == n["check"] and r["tier"] == n["tier"] and r.get("seed") == n.get("seed") for n in results)]
    m["runs"] = runs + results
    save_meta(d, m)
    return 0


def cmd_import(a):
    """Copy a sub-agent's deliverable (/tmp/seedout/<Cnn>/<X>) to seeded/<Cnn>-<X>."""
    src = os.path.join("/tmp/seedout2" if a.variant == "C" else "/tmp/seedout", a.prop, a.variant)
    d = os.path.join(SEEDED, "%s-%s" % (a.prop, a.variant))
    os.makedirs(d, exist_ok=True)
    shutil.copyfile(os.path.join(src, "patch.diff"), os.path.join(d, "patch.diff"))
    if os.path.isdir(os.path.join(d, "demo")):
        shutil.rmtree(os.path.join(d, "demo"))
    shutil.copytree(os.path.join(src, "demo"), os.path.join(d, "demo"))
    if os.path.exists(os.path.join(src, "notes.md")):
        shutil.copyfile(os.path.join(src, "notes.md"), os.path.join(d, "notes.md"))
    m = load_meta(d)
    m.setdefault("id", "%s-%s" % (a.prop, a.variant))
    m.setdefault("property", a.prop)
    m.setdefault("origin", "independent sub-agent given only the property text and a scratch worktree")
    if a.summary:
        m["summary"] = a.summary
    if a.needs:
        m["needs"] = a.needs
    save_meta(d, m)
    print("imported", d)
    return 0


def cmd_try(a):
    """Like run, but in a scratch worktree (never touches /repo), so that it can run while /repo is in use."""
    d = os.path.join(SEEDED, a.id)
    patch = os.path.join(d, "patch.diff")
    m = load_meta(d)
    props = a.props.split(",") if a.props else [m.get("property") or a.id[:3]]
    wt = "/tmp/seedtry-%s-%d" % (a.id, os.getpid())
    rc, out = sh(["git", "-C", REPO, "worktree", "add", "--detach", "-q", wt, "HEAD"])
    if rc:
        print(out)
        return 2
    results = []
    try:
        rc, out = sh(["git", "apply", patch], cwd=wt)
        if rc:
            print("patch does not apply:", out)
            return 2
        for p in props:
            env = dict(os.environ)
            bd = os.path.join(V, "build-mut")
            env.update({"VERIF_REPO": wt, "VERIF_BUILD_DIR": bd, "VERIF_EVIDENCE_DIR": os.path.join(bd, "evidence"),
                        "VERIF_VIOLATIONS_DIR": os.path.join(bd, "violations", a.id)})
            cmd = ["python3", os.path.join(V, "verif.py"), "check", p, "--tier", a.tier]
            if a.seed is not None:
                cmd += ["--seed", str(a.seed)]
            t0 = time.time()
            rc, out = sh(cmd, cwd=V, env=env)
            viol = [l for l in out.splitlines() if l.startswith("VIOLATION")]
            causes = sorted(set(re.findall(r"cause=([\w:.-]+)", out)))
            r = {"check": p, "tier": a.tier, "seed": a.seed, "exit": rc, "caught": rc == 1 and bool(viol), "seconds": round(time.time() - t0),
                 "causes": causes[:6], "violations": len(viol), "where": "scratch worktree of /repo HEAD " + sh(["git", "-C", REPO, "rev-parse", "--short", "HEAD"])[1].strip(),
                 "verif_commit": sh(["git", "-C", V, "rev-parse", "--short", "HEAD"])[1].strip()}
            if rc not in (0, 1):
                r["output_tail"] = "\n".join(out.strip().splitlines()[-8:])
            results.append(r)
            print(json.dumps(r))
    finally:
        sh(["git", "-C", REPO, "worktree", "remove", "--force", wt])
        sh(["git", "-C", REPO, "worktree", "prune"])
    m = load_meta(d)  # reload: a confirmation may have been recorded meanwhile
    runs = [r for r in m.get("runs", []) if not any(r["check"] == n["check"] and r["tier"] == n["tier"] and r.get("seed") == n.get("seed") for n in results)]
    m["runs"] = runs + results
    save_meta(d, m)
    return 0


def cmd_table(a):
    """Markdown table for DESIGN.md Appendix B: per seeded change the latest run of every check."""
    rows = []
    try:
        hist = json.load(open(os.path.join(SEEDED, "HISTORY.json")))
    except OSError:
        hist = {}
    for sid in sorted(os.listdir(SEEDED)):
        m = load_meta(os.path.join(SEEDED, sid))
        if not m:
            continue
        m["history"] = hist.get(sid, m.get("history", ""))
        latest = {}
        for r in m.get("runs", []):
            latest[(r["check"], r["tier"])] = r  # later runs replace earlier ones
        caught = [r for r in latest.values() if r.get("caught")]
        missed = [r for r in latest.values() if not r.get("caught")]
        conf = m.get("confirmed", {})
        ok = all(conf.get(k) for k in ("applies", "builds", "demo_passes_on_unchanged", "demo_fails_on_changed", "existing_tests_pass"))
        rows.append("| %s | %s | %s | %s | %s | %s |" % (
            sid, (m.get("summary", "") or "").replace("|", "/")[:160], (m.get("needs", "") or "").replace("|", "/")[:200],
            "yes" if ok else ("partly: " + ", ".join(k for k in ("applies", "builds", "demo_passes_on_unchanged", "demo_fails_on_changed", "existing_tests_pass") if not conf.get(k)) if conf else "pending"),
            "; ".join("%s %s in %ds (%s)" % (r["check"], r["tier"], r["seconds"], ", ".join(r["causes"][:2])) for r in sorted(caught, key=lambda r: r["check"])) or "-",
            ((", ".join("%s %s" % (r["check"], r["tier"]) for r in missed) + ". ") if missed else "") + (m.get("history", "") or "")))
    print("| id | change | needs, to manifest | confirmed | caught by (tier, seconds to report, cause) | notes |\n|---|---|---|---|---|---|")
    print("\n".join(rows))
    return 0


def main():
    ap = argparse.ArgumentParser()
    sub = ap.add_subparsers(dest="cmd", required=True)
    c = sub.add_parser("confirm")
    c.add_argument("dir")
    c.add_argument("--tests", default="")
    c.add_argument("--full", action="store_true")
    r = sub.add_parser("run")
    r.add_argument("id")
    r.add_argument("--props", default="")
    r.add_argument("--tier", default="quick")
    r.add_argument("--seed", type=int, default=None)
    sub.add_parser("table")
    i = sub.add_parser("import")
    i.add_argument("prop")
    i.add_argument("variant")
    i.add_argument("--summary", default="")
    i.add_argument("--needs", default="")
    y = sub.add_parser("try")
    y.add_argument("id")
    y.add_argument("--props", default="")
    y.add_argument("--tier", default="quick")
    y.add_argument("--seed", type=int, default=None)
    a = ap.parse_args()
    return {"confirm": cmd_confirm, "run": cmd_run, "table": cmd_table, "import": cmd_import, "try": cmd_try}[a.cmd](a)


if __name__ == "__main__":
    sys.exit(main())
